/-
C16 — Function and match arms: the first arm that matches is the one that runs.

Statements are about the model of Model/Arms.lean: `firstArm`/`matchExpr` (match
expressions), `stepArms`/`loopArms`/`callImpl` (user-defined functions as the interpreter
runs them: arity check, arm loop, tail-call loop) and `callRec` (plain recursion: the
specification).  They hold for all arm lists, all argument values and all recursion depths.
-/
import MechVerif.Lemmas.Arms
import MechVerif.Lemmas.ArmsSkeleton
import MechVerif.Gen.ArmsSkeleton
namespace MechVerif.Arms

/-! ### match expressions: the first applicable arm, and no later one -/

/-- If the arm loop selects an arm, that arm applies (pattern matches with these bindings,
    guard true) and no earlier arm does. -/
theorem C16_first_arm (base : Env) (src : V) (arms : List Arm) (arm : Arm) (env : Env)
    (h : firstArm base src arms = .ok (some (arm, env))) :
    ∃ pre post, arms = pre ++ arm :: post ∧ armApplies base arm src = .ok (some env) ∧
      ∀ a ∈ pre, armApplies base a src = .ok none := by
  induction arms with
  | nil => simp [firstArm] at h
  | cons a rest ih =>
    simp only [firstArm] at h
    cases ha : armApplies base a src with
    | error e => rw [ha] at h; cases h
    | ok r =>
      rw [ha] at h
      cases r with
      | some env' =>
        simp only [Except.ok.injEq, Option.some.injEq, Prod.mk.injEq] at h
        obtain ⟨rfl, rfl⟩ := h
        exact ⟨[], rest, rfl, ha, fun _ hx => by cases hx⟩
      | none =>
        obtain ⟨pre, post, hsplit, happ, hpre⟩ := ih h
        refine ⟨a :: pre, post, by simp [hsplit], happ, ?_⟩
        intro x hx
        rcases List.mem_cons.1 hx with rfl | hx
        · exact ha
        · exact hpre x hx

/-- Conversely the selected arm is determined by the arms up to and including it: whatever
    arms follow, they are not consulted. -/
theorem C16_later_arms_irrelevant (base : Env) (src : V) (pre post : List Arm) (arm : Arm) (env : Env)
    (hpre : ∀ a ∈ pre, armApplies base a src = .ok none)
    (happ : armApplies base arm src = .ok (some env)) :
    firstArm base src (pre ++ arm :: post) = .ok (some (arm, env)) := by
  induction pre with
  | nil => simp [firstArm, happ]
  | cons a pre ih =>
    simp only [List.cons_append, firstArm, hpre a (List.mem_cons_self ..)]
    exact ih (fun x hx => hpre x (List.mem_cons_of_mem _ hx))

/-- The value of a match expression is the body of the first applicable arm evaluated in
    the bindings of its pattern. -/
theorem C16_match_value (variants : List String) (arms : List Arm) (src : V) (v : V)
    (h : matchExpr variants arms src = .ok v) :
    ∃ arm env pre post, arms = pre ++ arm :: post ∧ armApplies [] arm src = .ok (some env) ∧
      (∀ a ∈ pre, armApplies [] a src = .ok none) ∧ evalE noSelf env arm.body = .ok v := by
  have hrun : ∀ v, runMatch arms src = .ok v →
      ∃ arm env pre post, arms = pre ++ arm :: post ∧ armApplies [] arm src = .ok (some env) ∧
        (∀ a ∈ pre, armApplies [] a src = .ok none) ∧ evalE noSelf env arm.body = .ok v := by
    intro v hv
    simp only [runMatch] at hv
    cases hf : firstArm [] src arms with
    | error e => rw [hf] at hv; cases hv
    | ok r =>
      rw [hf] at hv
      cases r with
      | none => cases hv
      | some ae =>
        obtain ⟨arm, env⟩ := ae
        simp only at hv
        cases hb : evalE noSelf env arm.body with
        | error e => rw [hb] at hv; cases hv
        | ok w =>
          rw [hb] at hv
          simp only at hv
          split at hv
          · cases hv
          · simp only [Except.ok.injEq] at hv; subst hv
            obtain ⟨pre, post, h1, h2, h3⟩ := C16_first_arm [] src arms arm env hf
            exact ⟨arm, env, pre, post, h1, h2, h3, hb⟩
  simp only [matchExpr] at h
  split at h
  · exact hrun v h
  · split at h
    · split at h
      · split at h
        · cases h
        · exact hrun v h
      · cases h
    · cases h

/-- A guard is evaluated in the bindings of its own arm's pattern, after the pattern
    matched; an arm whose pattern does not match is skipped without evaluating its guard. -/
theorem C16_guard_after_pattern (base : Env) (arm : Arm) (src : V)
    (h : matchP true arm.pat src base = none) : armApplies base arm src = .ok none := by
  simp [armApplies, h]

theorem C16_guard_in_pattern_bindings (base env : Env) (arm : Arm) (src : V)
    (h : matchP true arm.pat src base = some env) :
    (guardTrue env arm.guard = .ok true → armApplies base arm src = .ok (some env)) ∧
    (guardTrue env arm.guard = .ok false → armApplies base arm src = .ok none) ∧
    (∀ e, guardTrue env arm.guard = .error e → armApplies base arm src = .error e) := by
  refine ⟨fun hg => ?_, fun hg => ?_, fun e hg => ?_⟩ <;> simp [armApplies, h, hg]

/-- A match that has neither a wildcard arm nor covers every variant of its enum is
    rejected; so is a match none of whose arms applies. -/
theorem C16_nonexhaustive_rejected (variants : List String) (arms : List Arm) (src : V)
    (hw : hasWildcard arms = false)
    (hc : match src with
      | .enm _ _ => (armTags arms).isEmpty = true ∨ ∃ t ∈ variants, (armTags arms).contains t = false
      | _ => True) :
    matchExpr variants arms src = .error .nonExhaustive := by
  simp only [matchExpr, hw]
  cases src with
  | enm tag p =>
    simp only at hc ⊢
    rcases hc with he | ⟨t, ht, hn⟩
    · simp [he]
    · have hcov : (!(armTags arms).isEmpty && variants.all fun t => (armTags arms).contains t) = false := by
        rw [Bool.and_eq_false_iff]
        right
        rw [List.all_eq_false]
        exact ⟨t, ht, by rw [hn]; simp⟩
      rw [hcov]; rfl
  | sc s => rfl
  | tup l => rfl
  | arr l => rfl

theorem C16_no_arm_rejected (arms : List Arm) (src : V) (h : firstArm [] src arms = .ok none) :
    runMatch arms src = .error .noArm := by
  simp [runMatch, h]

/-! ### bindings: a pattern variable holds the part of the value at its position -/

theorem matchSP_get_mono (og : Bool) (p : SP) (s : S) (env env' : Env) (h : matchSP og p s env = some env')
    (x : Nat) (v : V) (hx : env.get x = some v) : env'.get x = some v := by
  cases p with
  | wild => simp only [matchSP, Option.some.injEq] at h; subst h; exact hx
  | lit l =>
    simp only [matchSP] at h
    split at h
    · split at h
      · simp only [Option.some.injEq] at h; subst h; exact hx
      · cases h
    · split at h
      · simp only [Option.some.injEq] at h; subst h; exact hx
      · cases h
  | bind y =>
    simp only [matchSP] at h
    split at h
    · split at h
      · simp only [Option.some.injEq] at h; subst h; exact hx
      · cases h
    · next hy =>
      simp only [Option.some.injEq] at h; subst h
      have hne : (y == x) = false := by
        cases hyx : (y == x) with
        | false => rfl
        | true => rw [beq_iff_eq] at hyx; subst hyx; rw [hx] at hy; cases hy
      simp only [Env.get, List.find?_cons, hne] at hx ⊢
      exact hx

theorem matchSP_bind_sound (og : Bool) (x : Nat) (s : S) (env env' : Env)
    (h : matchSP og (.bind x) s env = some env') : env'.get x = some (.sc s) := by
  simp only [matchSP] at h
  split at h
  · next w hy =>
    split at h
    · next heq => simp only [Option.some.injEq] at h; subst h; rw [hy]; simpa using heq
    · cases h
  · simp only [Option.some.injEq] at h; subst h
    simp [Env.get]

/-- After a tuple / argument-list pattern matched, every variable pattern is bound to the
    value at its position, every literal pattern equals the value at its position, and a
    variable that occurs twice saw equal values. -/
theorem C16_bindings_sound (og : Bool) : ∀ (ps : List SP) (ss : List S) (env env' : Env),
    matchSPs og ps ss env = some env' →
      ps.length = ss.length ∧
      (∀ x v, env.get x = some v → env'.get x = some v) ∧
      ∀ i (hi : i < ps.length) (hj : i < ss.length),
        (∀ x, ps[i] = .bind x → env'.get x = some (.sc ss[i])) ∧
        (∀ l, ps[i] = .lit l → og = false → valuesMatch l ss[i] = true) := by
  intro ps
  induction ps with
  | nil =>
    intro ss env env' h
    cases ss with
    | nil => simp only [matchSPs, Option.some.injEq] at h; subst h; exact ⟨rfl, fun _ _ hx => hx, fun i hi => by simp at hi⟩
    | cons _ _ => simp [matchSPs] at h
  | cons p ps ih =>
    intro ss env env' h
    cases ss with
    | nil => simp [matchSPs] at h
    | cons s ss =>
      simp only [matchSPs] at h
      cases h1 : matchSP og p s env with
      | none => rw [h1] at h; cases h
      | some env1 =>
        rw [h1] at h
        obtain ⟨hl, hmono, hpos⟩ := ih ss env1 env' h
        refine ⟨by simp [hl], fun x v hx => hmono x v (matchSP_get_mono og p s env env1 h1 x v hx), ?_⟩
        intro i hi hj
        cases i with
        | zero =>
          simp only [List.getElem_cons_zero]
          refine ⟨fun x hp => ?_, fun l hp hog => ?_⟩
          · subst hp; exact hmono x _ (matchSP_bind_sound og x s env env1 h1)
          · subst hp; subst hog
            cases l <;> simp only [matchSP] at h1 <;> (split at h1 <;> first | assumption | cases h1)
        | succ i =>
          simp only [List.getElem_cons_succ]
          exact hpos i (by simp at hi; omega) (by simp at hj; omega)

/-! ### functions -/

/-- a wrong number of arguments is an error -/
theorem C16_arity_rejected (f : FDef) (it d : Nat) (args : List S) (h : args.length ≠ f.arity) :
    callImpl f it (d + 1) args = .error .arity := by
  simp [callImpl, h]

/-- no matching arm is an error -/
theorem C16_no_matching_arm (self : List S → Except Err S) (f : FDef) (args : List S) (arms : List (P × E))
    (h : ∀ pe ∈ arms, matchArgs pe.1 args [] = none) : stepArms self f args arms = .error .noArm := by
  induction arms with
  | nil => rfl
  | cons pe rest ih =>
    obtain ⟨p, body⟩ := pe
    simp only [stepArms, h (p, body) (List.mem_cons_self ..)]
    exact ih (fun x hx => h x (List.mem_cons_of_mem _ hx))

/-- The arm a function call runs is the first whose pattern matches the arguments: the arms
    before it do not match, and the arms after it are never consulted. -/
theorem C16_function_first_arm (self : List S → Except Err S) (f : FDef) (args : List S)
    (pre post : List (P × E)) (p : P) (body : E) (env : Env)
    (hpre : ∀ pe ∈ pre, matchArgs pe.1 args [] = none) (hm : matchArgs p args [] = some env) :
    stepArms self f args (pre ++ (p, body) :: post) = stepArms self f args [(p, body)] := by
  induction pre with
  | nil => simp [stepArms, hm]
  | cons pe pre ih =>
    obtain ⟨q, b⟩ := pe
    simp only [List.cons_append, stepArms, hpre (q, b) (List.mem_cons_self ..)]
    exact ih (fun x hx => hpre x (List.mem_cons_of_mem _ hx))

/-- … and that arm runs in the bindings of its pattern, behind which the declared inputs stand for
    the arguments of the current call: a tail call hands over its evaluated arguments, any other
    body is evaluated. -/
theorem C16_function_arm_runs (self : List S → Except Err S) (f : FDef) (args : List S)
    (p : P) (body : E) (env : Env) (hm : matchArgs p args [] = some env) :
    (tailShape f body = none → ∀ r, evalScalar self (env ++ inputsEnv f args) body = .ok r → stepArms self f args [(p, body)] = .ok (.ret r)) ∧
    (∀ es xs, tailShape f body = some es → evalArgs self (env ++ inputsEnv f args) es = .ok xs → stepArms self f args [(p, body)] = .ok (.tail xs)) := by
  constructor
  · intro ht r hr; simp [stepArms, hm, ht, hr]
  · intro es xs ht hx; simp [stepArms, hm, ht, hx]

/-- The declared inputs are rebound in every iteration of the tail-call loop: after a tail call
    the loop continues with the new arguments, and the bodies of that iteration read the inputs as
    those arguments (`inputsEnv f args'`), not as the arguments of the original call. -/
theorem C16_tail_iteration_rebinds_inputs (self : List S → Except Err S) (f : FDef) (it : Nat) (args args' : List S)
    (h : stepArms self f args f.arms = .ok (.tail args')) :
    loopArms self f (it + 1) args = loopArms self f it args' ∧
    (∀ x v, (f.inputs.zip args').find? (fun p => p.1 == x) = some (x, v) → (inputsEnv f args').get x = some (.sc v)) := by
  constructor
  · simp only [loopArms, h]
  · intro x v hx
    unfold inputsEnv Env.get
    generalize f.inputs.zip args' = l at hx
    induction l with
    | nil => cases hx
    | cons p rest ih =>
      rw [List.find?_cons] at hx
      rw [List.map_cons, List.find?_cons]
      cases hp : (p.1 == x) with
      | true =>
        rw [hp] at hx
        simp only [Option.some.injEq] at hx
        rw [hx]; rfl
      | false =>
        rw [hp] at hx
        simp only [hp]
        exact ih hx

/-- Recursion, including tail recursion of any depth: the interpreter's arm loop with its
    tail-call iteration returns exactly the values plain recursion (every call, tail or
    not, a recursive call) defines. -/
theorem C16_tailcall_loop_is_recursion (f : FDef) (args : List S) (v : S) :
    (∃ d it, callImpl f it d args = .ok v) ↔ (∃ n, callRec f n args = .ok v) := by
  constructor
  · rintro ⟨d, it, h⟩; exact callImpl_sound f it d args v h
  · rintro ⟨n, h⟩; exact callRec_complete f n args v h

/-- and the value does not depend on the fuel -/
theorem C16_call_deterministic (f : FDef) (args : List S) (v w : S) (n m : Nat)
    (h1 : callRec f n args = .ok v) (h2 : callRec f m args = .ok w) : v = w := by
  have a := callRec_mono f (Nat.le_max_left n m) _ _ h1
  have b := callRec_mono f (Nat.le_max_right n m) _ _ h2
  rw [a] at b
  simpa using b

/-- Calling a single-argument function with a matrix returns the matrix of the function
    applied to each element. -/
theorem C16_broadcast_elementwise (call : List S → Except Err S) :
    ∀ (xs ys : List S), broadcast call xs = .ok ys →
      ys.length = xs.length ∧ ∀ i (hi : i < xs.length) (hj : i < ys.length), call [xs[i]] = .ok ys[i] := by
  intro xs
  induction xs with
  | nil => intro ys h; simp only [broadcast, Except.ok.injEq] at h; subst h; exact ⟨rfl, fun i hi => by simp at hi⟩
  | cons x xs ih =>
    intro ys h
    simp only [broadcast] at h
    cases hx : call [x] with
    | error e => rw [hx] at h; cases h
    | ok y =>
      rw [hx] at h
      cases hr : broadcast call xs with
      | error e => rw [hr] at h; cases h
      | ok rest =>
        rw [hr] at h
        simp only [Except.ok.injEq] at h; subst h
        obtain ⟨hl, hall⟩ := ih rest hr
        refine ⟨by simp [hl], ?_⟩
        intro i hi hj
        cases i with
        | zero => simpa using hx
        | succ i => simpa using hall i (by simp at hi; omega) (by simp at hj; omega)

/-! ### recursive definitions return what the recurrence defines -/

def u (n : Nat) : S := .num .u64 n

def fact : Nat → Nat
  | 0 => 1
  | n + 1 => (n + 1) * fact n

/-- `f(n) ├ 0 => 1 └ n => n * f(n - 1)` -/
def factDef : FDef :=
  ⟨1, [(.sp (.lit (u 0)), .lit (u 1)),
       (.sp (.bind 0), .bin .mul (.var 0) (.call1 (.bin .sub (.var 0) (.lit (u 1)))))], []⟩

theorem fact_pos (n : Nat) : 0 < fact n := by
  induction n with
  | zero => simp [fact]
  | succ n ih => simp only [fact]; exact Nat.mul_pos (by omega) ih

theorem fact_mono (n : Nat) : fact n ≤ fact (n + 1) := by
  simp only [fact]
  have := fact_pos n
  exact Nat.le_mul_of_pos_left _ (by omega)

theorem callRec_succ (f : FDef) (k : Nat) (args : List S) (h : args.length = f.arity) :
    callRec f (k + 1) args = runArmsRec f (callRec f k) args f.arms := by
  simp [callRec, h]

theorem env_get_hd (x : Nat) (v : V) (rest : Env) : Env.get ((x, v) :: rest) x = some v := by
  simp [Env.get]

/-- one unfolding of the factorial arms at a positive argument, for any meaning of the
    recursive call -/
theorem fact_step (self : List S → Except Err S) (m r : Nat) (hself : self [u m] = .ok (u r))
    (hr : ((m + 1) * r : Nat) ≤ U64MAX) (hm : ((m + 1 : Nat) : Int) ≤ U64MAX) :
    runArmsRec factDef self [u (m + 1)] factDef.arms = .ok (u ((m + 1) * r)) := by
  have hm0 : matchArgs (.sp (.lit (u 0))) [u (m + 1)] [] = none := by
    simp [matchArgs, matchP, matchSP, valuesMatch, u]; omega
  have hm1 : matchArgs (.sp (.bind 0)) [u (m + 1)] [] = some [(0, .sc (u (m + 1)))] := by
    simp [matchArgs, matchP, Env.get]
  simp only [factDef, runArmsRec, hm0, hm1, inputsEnv, List.zip_nil_left, List.map_nil, List.append_nil]
  apply evalScalar_ok.2
  have hv : evalE self [(0, V.sc (u (m + 1)))] (.var 0) = .ok (.sc (u (m + 1))) := by
    simp [evalE, Env.get]
  have hsub : evalE self [(0, V.sc (u (m + 1)))] (.bin .sub (.var 0) (.lit (u 1))) = .ok (.sc (u m)) := by
    apply evalE_bin_intro hv (by simp [evalE] : evalE self _ (.lit (u 1)) = .ok (.sc (u 1)))
    simp only [binop, u, if_true, arith]
    rw [if_neg (by simp)]
    have : ((m + 1 : Nat) : Int) - ((1 : Nat) : Int) = (m : Int) := by push_cast; omega
    simp only [this]
    rw [if_pos ⟨by omega, by push_cast at hm; omega⟩]
  have hcall := evalE_call1_intro hsub hself
  apply evalE_bin_intro hv hcall
  simp only [binop, u, if_true, arith]
  rw [if_neg (by simp)]
  have : ((m + 1 : Nat) : Int) * (r : Int) = (((m + 1) * r : Nat) : Int) := by push_cast; rfl
  simp only [this]
  rw [if_pos ⟨by omega, hr⟩]

/-- factorial over its whole non-overflowing domain -/
theorem C16_factorial (n : Nat) (h : (fact n : Int) ≤ U64MAX) :
    callRec factDef (n + 1) [u n] = .ok (u (fact n)) := by
  induction n with
  | zero =>
    simp [callRec, factDef, runArmsRec, matchArgs, matchP, matchSP, valuesMatch, u, evalScalar, evalE, asScalar, fact]
  | succ n ih =>
    have hn : (fact n : Int) ≤ U64MAX := by
      have := fact_mono n
      have : (fact n : Int) ≤ (fact (n + 1) : Int) := by exact_mod_cast this
      omega
    have hle : ((n + 1 : Nat) : Int) ≤ U64MAX := by
      have h1 : (n + 1 : Nat) ≤ fact (n + 1) := by
        simp only [fact]; exact Nat.le_mul_of_pos_right _ (fact_pos n)
      have : ((n + 1 : Nat) : Int) ≤ (fact (n + 1) : Int) := by exact_mod_cast h1
      omega
    rw [callRec_succ factDef (n + 1) [u (n + 1)] rfl]
    have := fact_step (callRec factDef (n + 1)) n (fact n) (ih hn) (by simpa [fact] using h) hle
    simpa [fact] using this

/-- `cd(n, acc) ├ (0, acc) => acc └ (n, acc) => cd(n - 1, acc + 2)` — a tail call -/
def cdDef : FDef :=
  ⟨2, [(.tup [.lit (u 0), .bind 2], .var 2),
       (.tup [.bind 1, .bind 2], .call2 (.bin .sub (.var 1) (.lit (u 1))) (.bin .add (.var 2) (.lit (u 2))))], []⟩

theorem valuesMatch_u (a b : Nat) : valuesMatch (u a) (u b) = decide (a = b) := by
  by_cases h : a = b
  · subst h; simp [valuesMatch]
  · have : (u a == u b) = false := by
      simp only [u, beq_eq_false_iff_ne, ne_eq, S.num.injEq, true_and]
      omega
    simp [valuesMatch, this, u]
    omega

theorem evalArgs_two (self : List S → Except Err S) (env : Env) (e1 e2 : E) (x y : S)
    (h1 : evalScalar self env e1 = .ok x) (h2 : evalScalar self env e2 = .ok y) :
    evalArgs self env [e1, e2] = .ok [x, y] := by
  simp only [evalArgs, h1, h2]

theorem cd_step_zero (self : List S → Except Err S) (acc : Nat) :
    stepArms self cdDef [u 0, u acc] cdDef.arms = .ok (.ret (u acc)) := by
  simp [cdDef, stepArms, matchArgs, matchSPs, matchSP, valuesMatch, u, tailShape, evalScalar, evalE, Env.get, asScalar]

theorem cd_step_succ (self : List S → Except Err S) (m acc : Nat) (hm : ((m + 1 : Nat) : Int) ≤ U64MAX)
    (hacc : ((acc + 2 : Nat) : Int) ≤ U64MAX) :
    stepArms self cdDef [u (m + 1), u acc] cdDef.arms = .ok (.tail [u m, u (acc + 2)]) := by
  have h0 : matchArgs (.tup [.lit (u 0), .bind 2]) [u (m + 1), u acc] [] = none := by
    have : valuesMatch (u 0) (u (m + 1)) = false := by rw [valuesMatch_u]; simp
    simp [matchArgs, matchSPs, matchSP, this]
  have h1 : matchArgs (.tup [.bind 1, .bind 2]) [u (m + 1), u acc] [] =
      some [(2, .sc (u acc)), (1, .sc (u (m + 1)))] := by
    simp [matchArgs, matchSPs, matchSP, Env.get]
  have hp : evalE self [(2, V.sc (u acc)), (1, V.sc (u (m + 1)))] (.var 1) = .ok (.sc (u (m + 1))) := by
    simp [evalE, Env.get]
  have hq : evalE self [(2, V.sc (u acc)), (1, V.sc (u (m + 1)))] (.var 2) = .ok (.sc (u acc)) := by
    simp [evalE, Env.get]
  have hsub : evalScalar self [(2, V.sc (u acc)), (1, V.sc (u (m + 1)))] (.bin .sub (.var 1) (.lit (u 1))) = .ok (u m) := by
    apply evalScalar_ok.2
    apply evalE_bin_intro hp (by simp [evalE] : evalE self _ (.lit (u 1)) = .ok (.sc (u 1)))
    simp only [binop, u, if_true, arith]
    rw [if_neg (by simp)]
    have : ((m + 1 : Nat) : Int) - ((1 : Nat) : Int) = (m : Int) := by push_cast; omega
    simp only [this]
    rw [if_pos ⟨by omega, by push_cast at hm; omega⟩]
  have hadd : evalScalar self [(2, V.sc (u acc)), (1, V.sc (u (m + 1)))] (.bin .add (.var 2) (.lit (u 2))) = .ok (u (acc + 2)) := by
    apply evalScalar_ok.2
    apply evalE_bin_intro hq (by simp [evalE] : evalE self _ (.lit (u 2)) = .ok (.sc (u 2)))
    simp only [binop, u, if_true, arith]
    rw [if_neg (by simp)]
    have : ((acc : Nat) : Int) + ((2 : Nat) : Int) = ((acc + 2 : Nat) : Int) := by push_cast; rfl
    simp only [this]
    rw [if_pos ⟨by omega, hacc⟩]
  have ht : tailShape cdDef (.call2 (.bin .sub (.var 1) (.lit (u 1))) (.bin .add (.var 2) (.lit (u 2)))) =
      some [.bin .sub (.var 1) (.lit (u 1)), .bin .add (.var 2) (.lit (u 2))] := rfl
  have hargs := evalArgs_two self _ _ _ _ _ hsub hadd
  have hfirst := C16_function_first_arm self cdDef [u (m + 1), u acc] [(.tup [.lit (u 0), .bind 2], .var 2)] []
    (.tup [.bind 1, .bind 2]) (.call2 (.bin .sub (.var 1) (.lit (u 1))) (.bin .add (.var 2) (.lit (u 2)))) _
    (by intro pe hpe; simp only [List.mem_singleton] at hpe; subst hpe; exact h0) h1
  have harm := (C16_function_arm_runs self cdDef [u (m + 1), u acc] _ _ _ h1).2 _ _ ht hargs
  exact hfirst.trans harm

/-- Tail recursion of any depth: the countdown returns `acc + 2n` after `n + 1` turns of the
    arm loop at a single level of call depth, for every `n` — the interpreter's stack does
    not grow with `n`. -/
theorem C16_countdown_any_depth (self : List S → Except Err S) (n acc : Nat)
    (h : ((acc + 2 * n : Nat) : Int) ≤ U64MAX) (hn : ((n : Nat) : Int) ≤ U64MAX) :
    loopArms self cdDef (n + 1) [u n, u acc] = .ok (u (acc + 2 * n)) := by
  induction n generalizing acc with
  | zero => simp [loopArms, cd_step_zero]
  | succ n ih =>
    have hacc : ((acc + 2 : Nat) : Int) ≤ U64MAX := by push_cast at h ⊢; omega
    have e : loopArms self cdDef (n + 1 + 1) [u (n + 1), u acc] = loopArms self cdDef (n + 1) [u n, u (acc + 2)] := by
      rw [loopArms, cd_step_succ self n acc hn hacc]
    rw [e, ih (acc + 2) (by push_cast at h ⊢; omega) (by push_cast at hn ⊢; omega)]
    congr 2
    omega

theorem C16_countdown_call (n acc : Nat) (h : ((acc + 2 * n : Nat) : Int) ≤ U64MAX) (hn : ((n : Nat) : Int) ≤ U64MAX) :
    callImpl cdDef (n + 1) 1 [u n, u acc] = .ok (u (acc + 2 * n)) := by
  simp only [callImpl, List.length_cons, List.length_nil]
  rw [if_neg (by simp [cdDef])]
  exact C16_countdown_any_depth _ n acc h hn

/-- … and plain recursion agrees (by the equivalence theorem) -/
theorem C16_countdown_recurrence (n acc : Nat) (h : ((acc + 2 * n : Nat) : Int) ≤ U64MAX) (hn : ((n : Nat) : Int) ≤ U64MAX) :
    ∃ k, callRec cdDef k [u n, u acc] = .ok (u (acc + 2 * n)) :=
  (C16_tailcall_loop_is_recursion cdDef _ _).1 ⟨1, n + 1, C16_countdown_call n acc h hn⟩

/-! non-vacuity -/
example : callRec factDef 6 [u 5] = .ok (u 120) := by
  have := C16_factorial 5 (by decide)
  simpa [fact] using this

/-! ### the call, the arm loop and the match expression as written

`tools/extract_arms.py` regenerates `Gen.ArmsSkeleton.userFn` / `fnArms` / `matchFn` from `execute_user_function`,
`execute_function_match_arms` (functions.rs) and `match_expression` (expressions.rs) on every run; the generated file
proves them equal to the accepted skeletons (`decide`), Lemmas/ArmsSkeleton.lean proves what the accepted skeletons
compute over the model's leaves. -/

open MechVerif.ArmsIR in
/-- One pass of `execute_function_match_arms` as written is `stepArms`: arms in source order, a fresh pattern
    environment per arm, matched against the arguments handed in, the first match returns, no arm is an error.
    (`Saturated`: a body that is literally a self call has as many arguments as the function has inputs.) -/
theorem C16_function_arms_as_written_is_stepArms (f : FDef) (self : List S → Except Err S)
    (left : P → List S → Env → Env) (args : List S) (hsat : Saturated f f.arms) :
    runArms (modelFOps f self left) Gen.ArmsSkeleton.fnArms args (inputsEnv f args) = some (stepArms self f args f.arms) := by
  rw [Gen.ArmsSkeleton.C16_function_arms_as_written]; exact runArms_expected f self left args hsat

open MechVerif.ArmsIR in
/-- `execute_user_function` as written (calling `execute_function_match_arms` as written) is `callImpl`, for all
    definitions with arms, all arguments, all fuel: arity first, then the loop whose next turn binds and matches the
    tail call's arguments. -/
theorem C16_user_function_as_written_is_callImpl (f : FDef) (it d : Nat) (left : P → List S → Env → Env) (args : List S)
    (hsat : Saturated f f.arms) (harms : f.arms ≠ []) :
    runUser (modelFOps f (callImpl f it d) left) Gen.ArmsSkeleton.fnArms Gen.ArmsSkeleton.userFn it args
      = some (callImpl f it (d + 1) args) := by
  rw [Gen.ArmsSkeleton.C16_function_arms_as_written, Gen.ArmsSkeleton.C16_user_function_as_written]
  exact runUser_expected f it d left args hsat harms

open MechVerif.ArmsIR in
/-- `match_expression` as written is `matchExpr`, for all arm lists and sources: the wildcard / exhaustiveness test
    before the loop, arms in source order, the environment cloned per arm, the guard only after the pattern matched. -/
theorem C16_match_expression_as_written_is_matchExpr (variants : List String) (arms : List Arm) (src : V)
    (left : P → V → Env → Env) :
    runMatchExpr (modelMOps variants arms src left) Gen.ArmsSkeleton.matchFn = some (matchExpr variants arms src) := by
  rw [Gen.ArmsSkeleton.C16_match_expression_as_written]; exact runMatchExpr_expected variants arms src left

open MechVerif.ArmsIR in
/-- an existing theorem restated for the code as written: a call with the wrong number of arguments is rejected -/
theorem C16_arity_rejected_as_written (f : FDef) (it d : Nat) (left : P → List S → Env → Env) (args : List S)
    (hsat : Saturated f f.arms) (harms : f.arms ≠ []) (h : args.length ≠ f.arity) :
    runUser (modelFOps f (callImpl f it d) left) Gen.ArmsSkeleton.fnArms Gen.ArmsSkeleton.userFn it args
      = some (.error .arity) := by
  rw [C16_user_function_as_written_is_callImpl f it d left args hsat harms]
  simp [callImpl, h]

open MechVerif.ArmsIR in
/-- an existing theorem restated for the code as written: without a wildcard arm a source that is not an enum value is rejected
    before any arm is looked at -/
theorem C16_nonexhaustive_rejected_as_written (variants : List String) (arms : List Arm) (s : S) (left : P → V → Env → Env)
    (h : hasWildcard arms = false) :
    runMatchExpr (modelMOps variants arms (.sc s) left) Gen.ArmsSkeleton.matchFn = some (.error .nonExhaustive) := by
  rw [C16_match_expression_as_written_is_matchExpr]
  simp [matchExpr, h]

/-! ### the seeded changes have another meaning -/

section mutants
open MechVerif.ArmsIR

/-- a matcher that leaves the binding it made before it failed (as `pattern_matches_arguments` does with a tuple
    pattern whose second position fails) -/
def leftBinding : P → List S → Env → Env := fun _ args env =>
  match args with
  | a :: _ => (0, .sc a) :: env
  | [] => env

/-- the arm loop with the pattern environment created once, before the loop -/
def mutantEnvOnce : FStmt :=
  .seq .enumCheck
  (.seq .newEnv
  (.seq (.forArms .forward
    (.seq (.matchArgs .orig)
    (.ite (.var .matched)
      (.seq (.ifSelfCall (.seq .evalTailArgs (.ifTailArity .returnTail)))
      (.seq .evalBody (.seq .coerce .returnValue)))
      .skip)))
  .failNoArm))

def twoArms : FDef := { arity := 2, arms := [(.tup [.bind 0, .lit (.num .u64 0)], .lit (.num .u64 1)), (.tup [.bind 1, .bind 0], .var 0)] }

/-- with one environment for all arms, what the first arm bound before it failed decides the second arm -/
theorem C16_mutant_env_once :
    runArms (modelFOps twoArms noSelf leftBinding) mutantEnvOnce [.num .u64 5, .num .u64 7] [] = some (.error .noArm) ∧
    runArms (modelFOps twoArms noSelf leftBinding) expectedArms [.num .u64 5, .num .u64 7] [] = some (.ok (.ret (.num .u64 7))) :=
  ⟨rfl, rfl⟩

/-- the tail-call loop binding the inputs to the arguments of the original call -/
def mutantBindOriginal : FStmt :=
  .seq .arityCheck (.seq (.tryBroadcast .orig) (.seq (.ifArms
    (.seq (.setCur .orig) (.loop (.seq .enterScope (.seq (.bindInputs .orig) (.seq (.callArms .cur) (.seq .dropScope
      (.matchStep .breakValue (.setCur .next))))))))
    .plainBody) .returnOutput))

/-- `f(n) := | 0 => n  | m => f(0)` with the input named `n` (variable 7): after the tail call `n` must be 0 -/
def tailDef : FDef := { arity := 1, arms := [(.sp (.lit (.num .u64 0)), .var 7), (.sp (.bind 1), .call1 (.lit (.num .u64 0)))], inputs := [7] }

theorem C16_mutant_inputs_of_original_call :
    runUser (modelFOps tailDef noSelf leftBinding) expectedArms mutantBindOriginal 3 [.num .u64 5] = some (.ok (.num .u64 5)) ∧
    runUser (modelFOps tailDef noSelf leftBinding) expectedArms expectedUser 3 [.num .u64 5] = some (.ok (.num .u64 0)) :=
  ⟨rfl, rfl⟩

/-- the arm loop reversed -/
def mutantReversed : FStmt :=
  .seq .enumCheck (.seq (.forArms .reverse
    (.seq .newEnv (.seq (.matchArgs .orig) (.ite (.var .matched)
      (.seq (.ifSelfCall (.seq .evalTailArgs (.ifTailArity .returnTail))) (.seq .evalBody (.seq .coerce .returnValue))) .skip))))
    .failNoArm)

def overlap : FDef := { arity := 1, arms := [(.sp (.lit (.num .u64 0)), .lit (.num .u64 10)), (.sp .wild, .lit (.num .u64 20))] }

theorem C16_mutant_reversed :
    runArms (modelFOps overlap noSelf leftBinding) mutantReversed [.num .u64 0] [] = some (.ok (.ret (.num .u64 20))) ∧
    runArms (modelFOps overlap noSelf leftBinding) expectedArms [.num .u64 0] [] = some (.ok (.ret (.num .u64 10))) :=
  ⟨rfl, rfl⟩

/-- the match expression evaluating the guard before (and whatever) the pattern says -/
def mutantGuardFirst : MStmt :=
  .seq .evalSource (.seq .detach (.seq .baseFromCaller (.seq .bindSourceVar (.seq (.ifNoWildcard (.ifInferMissing
    (.ifMissingEmpty (.validateAll .base) .failVariants) .failNonExhaustive)) (.seq .emptySpecial (.seq (.forArms .forward
    (.seq (.cloneEnv .base) (.seq (.guard false .arm) (.seq (.matchPat true .arm)
      (.ite (.and (.var .matched) (.var .passed))
        (.seq .emptyCoalesce (.seq (.evalBody .arm) (.seq (.validateKinds .base) .returnOutput))) .skip)))))
    .failNoArm))))))

/-- `x ? | (a, b), a > 0 => 1 | * => 2` on a scalar: the guard's variable is not bound when the pattern did not match -/
def guardedArms : List Arm :=
  [{ pat := .tup [.bind 0, .bind 1], guard := some (.bin .gt (.var 0) (.lit (.num .u64 0))), body := .lit (.num .u64 1) },
   { pat := .sp .wild, guard := none, body := .lit (.num .u64 2) }]

def leftNothing : P → V → Env → Env := fun _ _ env => env

theorem C16_mutant_guard_before_pattern :
    runMatchExpr (modelMOps [] guardedArms (.sc (.num .u64 3)) leftNothing) mutantGuardFirst = some (.error .undef) ∧
    runMatchExpr (modelMOps [] guardedArms (.sc (.num .u64 3)) leftNothing) expectedMatch = some (.ok (.sc (.num .u64 2))) :=
  ⟨rfl, rfl⟩

/-- the match expression with one binding environment for all arms -/
def mutantCloneOnce : MStmt :=
  .seq .evalSource (.seq .detach (.seq .baseFromCaller (.seq .bindSourceVar (.seq (.ifNoWildcard (.ifInferMissing
    (.ifMissingEmpty (.validateAll .base) .failVariants) .failNonExhaustive)) (.seq .emptySpecial (.seq (.cloneEnv .base) (.seq (.forArms .forward
    (.seq (.matchPat true .arm) (.seq (.guard true .arm)
      (.ite (.and (.var .matched) (.var .passed))
        (.seq .emptyCoalesce (.seq (.evalBody .arm) (.seq (.validateKinds .base) .returnOutput))) .skip))))
    .failNoArm)))))))

/-- a failed first arm leaves `x₀ = 9` behind; the second arm `x₀ => x₀` then compares instead of binding -/
def leftNine : P → V → Env → Env := fun _ _ env => (0, .sc (.num .u64 9)) :: env

def bindArms : List Arm :=
  [{ pat := .sp (.lit (.num .u64 1)), guard := none, body := .lit (.num .u64 1) },
   { pat := .sp (.bind 0), guard := none, body := .var 0 },
   { pat := .sp .wild, guard := none, body := .lit (.num .u64 0) }]

theorem C16_mutant_binding_env_once :
    runMatchExpr (modelMOps [] bindArms (.sc (.num .u64 3)) leftNine) mutantCloneOnce = some (.ok (.sc (.num .u64 0))) ∧
    runMatchExpr (modelMOps [] bindArms (.sc (.num .u64 3)) leftNine) expectedMatch = some (.ok (.sc (.num .u64 3))) :=
  ⟨rfl, rfl⟩

end mutants

end MechVerif.Arms
