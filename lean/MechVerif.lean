import MechVerif.Model.Include
import MechVerif.Spec.Include
import MechVerif.Lemmas.Include
import MechVerif.Props.C20
