/-
C05 — Bindings are isolated: immutable means unchanged, failures change nothing.
Model: `Model/Store.lean` (cells, symbols, statements as the interpreter executes them).
The isolation theorems hold for histories without bare-variable definitions and without
tuple destructuring (the two places where the pinned commit shares cells, C05-D1/D2);
the counterexamples are kernel-checked.
-/
import MechVerif.Gen.BindSkel
import MechVerif.Model.Store
namespace MechVerif.Store

/-- statements that cannot create sharing: no definition from a bare variable, no
    destructuring -/
def Stmt.aliasFree : Stmt → Bool
  | .define _ _ (.var _) => false
  | .destructure _ _ => false
  | _ => true

/-- statements whose failure is atomic in the code (all but multi-index writes and
    destructuring) -/
def Stmt.atomicOnFailure : Stmt → Bool
  | .setIdx _ ix _ => ix.length ≤ 1
  | .destructure _ _ => false
  | _ => true

/-- every symbol points into the cell array and distinct names own distinct cells -/
def WF (s : Store) : Prop :=
  (∀ e ∈ s.syms, e.2.1 < s.cells.length) ∧
  (∀ e1 ∈ s.syms, ∀ e2 ∈ s.syms, e1.2.1 = e2.2.1 → e1.1 = e2.1) ∧
  (∀ e1 ∈ s.syms, ∀ e2 ∈ s.syms, e1.1 = e2.1 → e1 = e2)

/-- Redefining a name is rejected and changes nothing. -/
theorem C05_rejects_redefine (s : Store) (m : Bool) (n : Name) (e : Expr) (h : (s.lookup n).isSome = true) :
    exec s (.define m n e) = (s, .error .redefine) := by
  simp [exec, h]

/-- Assigning to an undefined name, or to an immutable one, is rejected and changes
    nothing (when the right-hand side itself evaluates). -/
theorem C05_rejects_undefined_immutable (s : Store) (op : AOp) (n : Name) (e : Expr) (v : V) (hv : evalValue s e = .ok v) :
    (s.lookup n = none → exec s (.assign n e) = (s, .error .undefined)) ∧
    (∀ c, s.lookup n = some (c, false) → exec s (.assign n e) = (s, .error .immutable)) ∧
    (s.lookup n = none → exec s (.addAssign op n e) = (s, .error .undefined)) ∧
    (∀ c, s.lookup n = some (c, false) → exec s (.addAssign op n e) = (s, .error .immutable)) := by
  refine ⟨?_, ?_, ?_, ?_⟩
  · intro h; simp [exec, hv, mutableCell, h]
  · intro c h; simp [exec, hv, mutableCell, h]
  · intro h; simp [exec, hv, mutableCell, h]
  · intro c h; simp [exec, hv, mutableCell, h]

theorem set_self {α : Type} : ∀ (l : List α) (c : Nat) (v : α), l[c]? = some v → l.set c v = l := by
  intro l
  induction l with
  | nil => intro c v h; simp at h
  | cons x xs ih =>
    intro c v h
    cases c with
    | zero => simp at h; simp [h]
    | succ c => simp at h; simp [ih c v h]

/-- A statement that fails returns the store it was given — for every statement whose
    kernel cannot fail half-way (see `atomicOnFailure` and the counterexample D3). -/
theorem C05_errors_leave_store_unchanged_partial (s : Store) (st : Stmt) (h : st.atomicOnFailure = true)
    (e : SErr) (herr : (exec s st).2 = .error e) : (exec s st).1 = s := by
  cases st with
  | define m n ex =>
    by_cases hl : (s.lookup n).isSome = true
    · simp [exec, hl]
    · cases hc : evalCell s ex with
      | error err => simp [exec, hl, hc]
      | ok p => obtain ⟨s1, c⟩ := p; simp [exec, hl, hc] at herr
  | assign n ex =>
    cases hv : evalValue s ex with
    | error err => simp [exec, hv]
    | ok v =>
      cases hc : mutableCell s n with
      | error err => simp [exec, hv, hc]
      | ok c =>
        cases ho : s.read c with
        | none => simp [exec, hv, hc, ho]
        | some old =>
          by_cases hcomp : compatible old v = true
          · simp [exec, hv, hc, ho, hcomp] at herr
          · simp [exec, hv, hc, ho, hcomp]
  | setIdx n ix v =>
    simp only [Stmt.atomicOnFailure, decide_eq_true_eq] at h
    cases hc : mutableCell s n with
    | error err => simp [exec, hc]
    | ok c =>
      cases hr : s.read c with
      | none => simp [exec, hc, hr]
      | some old =>
        cases old with
        | mat r cc els =>
          match ix, h with
          | [], _ => simp [exec, hc, hr, setMany] at herr
          | [i], _ =>
            by_cases hi : 1 ≤ i ∧ i ≤ els.length
            · simp [exec, hc, hr, setMany, hi] at herr
            · simp only [exec, hc, hr, setMany, hi, if_false]
              unfold Store.write
              have : s.cells.set c (V.mat r cc els) = s.cells := by
                unfold Store.read at hr
                exact set_self s.cells c _ hr
              rw [this]
        | num _ => simp [exec, hc, hr]
        | blob _ => simp [exec, hc, hr]
        | tuple _ => simp [exec, hc, hr]
        | record _ => simp [exec, hc, hr]
        | table _ _ => simp [exec, hc, hr]
  | addAssign op n ex =>
    cases hv : evalValue s ex with
    | error err => simp [exec, hv]
    | ok v =>
      cases hc : mutableCell s n with
      | error err => simp [exec, hv, hc]
      | ok c =>
        cases ho : s.read c with
        | none => simp [exec, hv, hc, ho]
        | some old =>
          cases hnv : addV op old v with
          | none => simp [exec, hv, hc, ho, hnv]
          | some nv => simp [exec, hv, hc, ho, hnv] at herr
  | setField n f ex =>
    cases hv : fieldSource s ex with
    | error err => simp [exec, hv]
    | ok v =>
      cases hc : mutableCell s n with
      | error err => simp [exec, hv, hc]
      | ok c =>
        cases ho : s.read c with
        | none => simp [exec, hv, hc, ho]
        | some old =>
          cases hnv : setFieldV f old v with
          | none => simp [exec, hv, hc, ho, hnv]
          | some nv => simp [exec, hv, hc, ho, hnv] at herr
  | destructure ns t => simp [Stmt.atomicOnFailure] at h

theorem lookup_mem (s : Store) (n : Name) (c : Nat) (m : Bool) (h : s.lookup n = some (c, m)) :
    (n, c, m) ∈ s.syms := by
  unfold Store.lookup at h
  cases hf : s.syms.find? (fun e => e.1 == n) with
  | none => simp [hf] at h
  | some e =>
    simp only [hf, Option.map_some, Option.some.injEq] at h
    have hm := List.mem_of_find?_eq_some hf
    have hp := List.find?_some hf
    simp only [beq_iff_eq] at hp
    obtain ⟨a, b⟩ := e
    simp only at hp h
    subst hp; subst h; exact hm

theorem alloc_read_old (s : Store) (v : V) (c : Nat) (hc : c < s.cells.length) :
    (s.alloc v).1.read c = s.read c := by
  simp [Store.alloc, Store.read, List.getElem?_append_left hc]

/-- the name a statement writes or defines -/
def Stmt.target : Stmt → Option Name
  | .define _ n _ | .assign n _ | .setIdx n _ _ | .addAssign _ n _ | .setField n _ _ => some n
  | .destructure _ _ => none

theorem write_read_other (s : Store) (c cm : Nat) (v : V) (h : c ≠ cm) : (s.write c v).read cm = s.read cm := by
  simp [Store.write, Store.read, List.getElem?_set, h]

/-- Isolation: in a well-formed store, a sharing-free statement aimed at name `n` never
    changes what any other name `m` reads. -/
theorem C05_other_names_unchanged (s : Store) (hwf : WF s) (st : Stmt) (haf : st.aliasFree = true)
    (m : Name) (cm : Nat) (mm : Bool) (hm : s.lookup m = some (cm, mm))
    (hother : st.target ≠ some m) :
    (exec s st).1.read cm = s.read cm := by
  have hmem := lookup_mem s m cm mm hm
  have hlt : cm < s.cells.length := hwf.1 _ hmem
  -- a write through the mutable cell of another name cannot hit cm
  have hne : ∀ n c, n ≠ m → mutableCell s n = .ok c → c ≠ cm := by
    intro n c hn hc heq
    unfold mutableCell at hc
    cases hl : s.lookup n with
    | none => simp [hl] at hc
    | some p =>
      obtain ⟨c', b⟩ := p
      cases b with
      | false => simp [hl] at hc
      | true =>
        simp only [hl, Except.ok.injEq] at hc
        subst hc
        have := hwf.2.1 _ (lookup_mem s n c' true hl) _ hmem (by simpa using heq)
        exact hn this
  cases st with
  | define mu n ex =>
    by_cases hl : (s.lookup n).isSome = true
    · simp [exec, hl]
    · cases ex with
      | lit v => simp only [exec, hl, evalCell]; exact alloc_read_old s v cm hlt
      | tupleLit els =>
        have key : ∀ (l : List Int) (acc : Store), cm < acc.cells.length →
            (allocNums acc l).read cm = acc.read cm ∧ cm < (allocNums acc l).cells.length := by
          intro l
          induction l with
          | nil => intro acc h; exact ⟨rfl, h⟩
          | cons x xs ih =>
            intro acc h
            simp only [allocNums]
            have hlen : (acc.alloc (.num x)).1.cells.length = acc.cells.length + 1 := by simp [Store.alloc]
            have h1 : cm < (acc.alloc (.num x)).1.cells.length := by rw [hlen]; exact Nat.lt_succ_of_lt h
            obtain ⟨r1, r2⟩ := ih (acc.alloc (.num x)).1 h1
            exact ⟨by rw [r1, alloc_read_old acc _ cm h], r2⟩
        obtain ⟨r1, r2⟩ := key els s hlt
        simp only [exec, hl, evalCell]
        show (Store.alloc _ _).1.read cm = _
        rw [alloc_read_old _ _ cm r2, r1]
      | var x => simp [Stmt.aliasFree] at haf
      | copy x =>
        cases hx : s.lookup x with
        | none => simp [exec, hl, evalCell, hx]
        | some p =>
          obtain ⟨cx, bx⟩ := p
          cases hr : s.read cx with
          | none => simp [exec, hl, evalCell, hx, hr]
          | some v =>
            by_cases hcp : copyable v = true
            · simp only [exec, hl, evalCell, hx, hr, hcp, if_true]; exact alloc_read_old s v cm hlt
            · simp [exec, hl, evalCell, hx, hr, hcp]
      | bad => simp [exec, hl, evalCell]
  | assign n ex =>
    have hn : n ≠ m := by intro e; subst e; exact hother rfl
    cases hv : evalValue s ex with
    | error err => simp [exec, hv]
    | ok v =>
      cases hc : mutableCell s n with
      | error err => simp [exec, hv, hc]
      | ok c =>
        cases ho : s.read c with
        | none => simp [exec, hv, hc, ho]
        | some old =>
          by_cases hcomp : compatible old v = true
          · simp only [exec, hv, hc, ho, hcomp, if_true]
            exact write_read_other s c cm v (hne n c hn hc)
          · simp [exec, hv, hc, ho, hcomp]
  | setIdx n ix v =>
    have hn : n ≠ m := by intro e; subst e; exact hother rfl
    cases hc : mutableCell s n with
    | error err => simp [exec, hc]
    | ok c =>
      cases hr : s.read c with
      | none => simp [exec, hc, hr]
      | some old =>
        cases old with
        | mat r cc els =>
          simp only [exec, hc, hr]
          exact write_read_other s c cm _ (hne n c hn hc)
        | num _ => simp [exec, hc, hr]
        | blob _ => simp [exec, hc, hr]
        | tuple _ => simp [exec, hc, hr]
        | record _ => simp [exec, hc, hr]
        | table _ _ => simp [exec, hc, hr]
  | addAssign op n ex =>
    have hn : n ≠ m := by intro e; subst e; exact hother rfl
    cases hv : evalValue s ex with
    | error err => simp [exec, hv]
    | ok v =>
      cases hc : mutableCell s n with
      | error err => simp [exec, hv, hc]
      | ok c =>
        cases ho : s.read c with
        | none => simp [exec, hv, hc, ho]
        | some old =>
          cases hnv : addV op old v with
          | none => simp [exec, hv, hc, ho, hnv]
          | some nv =>
            simp only [exec, hv, hc, ho, hnv]
            exact write_read_other s c cm nv (hne n c hn hc)
  | setField n f ex =>
    have hn : n ≠ m := by intro e; subst e; exact hother rfl
    cases hv : fieldSource s ex with
    | error err => simp [exec, hv]
    | ok v =>
      cases hc : mutableCell s n with
      | error err => simp [exec, hv, hc]
      | ok c =>
        cases ho : s.read c with
        | none => simp [exec, hv, hc, ho]
        | some old =>
          cases hnv : setFieldV f old v with
          | none => simp [exec, hv, hc, ho, hnv]
          | some nv =>
            simp only [exec, hv, hc, ho, hnv]
            exact write_read_other s c cm nv (hne n c hn hc)
  | destructure ns t => simp [Stmt.aliasFree] at haf

/-- Immutable means unchanged: no sharing-free statement, whatever its target, changes
    what an immutable name reads. -/
theorem C05_immutable_unchanged (s : Store) (hwf : WF s) (st : Stmt) (haf : st.aliasFree = true)
    (m : Name) (cm : Nat) (hm : s.lookup m = some (cm, false)) :
    (exec s st).1.read cm = s.read cm := by
  by_cases htarget : st.target ≠ some m
  · exact C05_other_names_unchanged s hwf st haf m cm false hm htarget
  · have himm : mutableCell s m = .error .immutable := by simp [mutableCell, hm]
    have hdef : (s.lookup m).isSome = true := by simp [hm]
    simp only [ne_eq, Decidable.not_not] at htarget
    cases st with
    | define mu n ex =>
      simp only [Stmt.target, Option.some.injEq] at htarget
      subst htarget
      simp [exec, hdef]
    | assign n ex =>
      simp only [Stmt.target, Option.some.injEq] at htarget
      subst htarget
      cases hv : evalValue s ex with
      | error err => simp [exec, hv]
      | ok v => simp [exec, hv, himm]
    | setIdx n ix v =>
      simp only [Stmt.target, Option.some.injEq] at htarget
      subst htarget
      simp [exec, himm]
    | addAssign op n ex =>
      simp only [Stmt.target, Option.some.injEq] at htarget
      subst htarget
      cases hv : evalValue s ex with
      | error err => simp [exec, hv]
      | ok v => simp [exec, hv, himm]
    | setField n f ex =>
      simp only [Stmt.target, Option.some.injEq] at htarget
      subst htarget
      cases hv : fieldSource s ex with
      | error err => simp [exec, hv]
      | ok v => simp [exec, hv, himm]
    | destructure ns t => simp [Stmt.target] at htarget

theorem lookup_none_not_mem (s : Store) (n : Name) (h : (s.lookup n).isSome ≠ true) :
    ∀ e ∈ s.syms, e.1 ≠ n := by
  intro e he hn
  apply h
  unfold Store.lookup
  cases hf : s.syms.find? (fun e => e.1 == n) with
  | some _ => simp
  | none =>
    have := List.find?_eq_none.mp hf e he
    simp [hn] at this

theorem wf_extend (s : Store) (hwf : WF s) (cells' : List V) (n : Name) (c : Nat) (m : Bool)
    (hlen : s.cells.length ≤ c) (hc : c < cells'.length) (hfresh : ∀ e ∈ s.syms, e.1 ≠ n) :
    WF ⟨cells', s.syms ++ [(n, c, m)]⟩ := by
  obtain ⟨h1, h2, h3⟩ := hwf
  refine ⟨?_, ?_, ?_⟩
  · intro e he
    cases List.mem_append.mp he with
    | inl ho => have := h1 e ho; simp only; omega
    | inr hn => simp at hn; subst hn; exact hc
  · intro e1 he1 e2 he2 heq
    cases List.mem_append.mp he1 with
    | inl ho1 =>
      cases List.mem_append.mp he2 with
      | inl ho2 => exact h2 e1 ho1 e2 ho2 heq
      | inr hn2 => simp at hn2; subst hn2; have := h1 e1 ho1; simp only at heq; omega
    | inr hn1 =>
      simp at hn1; subst hn1
      cases List.mem_append.mp he2 with
      | inl ho2 => have := h1 e2 ho2; simp only at heq; omega
      | inr hn2 => simp at hn2; subst hn2; rfl
  · intro e1 he1 e2 he2 heq
    cases List.mem_append.mp he1 with
    | inl ho1 =>
      cases List.mem_append.mp he2 with
      | inl ho2 => exact h3 e1 ho1 e2 ho2 heq
      | inr hn2 => simp at hn2; subst hn2; exact absurd heq (hfresh e1 ho1)
    | inr hn1 =>
      simp at hn1; subst hn1
      cases List.mem_append.mp he2 with
      | inl ho2 => exact absurd heq.symm (hfresh e2 ho2)
      | inr hn2 => simp at hn2; subst hn2; rfl

theorem wf_write (s : Store) (hwf : WF s) (c : Nat) (v : V) : WF (s.write c v) := by
  obtain ⟨h1, h2, h3⟩ := hwf
  exact ⟨by intro e he; simpa [Store.write] using h1 e he, h2, h3⟩

/-- The invariant behind isolation, by induction over the history: sharing-free
    statements keep every name on its own cell. -/
theorem C05_no_alias_inv (s : Store) (hwf : WF s) (st : Stmt) (haf : st.aliasFree = true) :
    WF (exec s st).1 := by
  cases st with
  | define mu n ex =>
    by_cases hl : (s.lookup n).isSome = true
    · simpa [exec, hl] using hwf
    · have hfresh := lookup_none_not_mem s n hl
      cases ex with
      | lit v =>
        simp only [exec, hl, evalCell, Store.alloc]
        exact wf_extend s hwf _ n _ mu (Nat.le_refl _) (by simp) hfresh
      | tupleLit els =>
        have key : ∀ (l : List Int) (acc : Store),
            (allocNums acc l).syms = acc.syms ∧ acc.cells.length ≤ (allocNums acc l).cells.length := by
          intro l
          induction l with
          | nil => intro acc; exact ⟨rfl, Nat.le_refl _⟩
          | cons x xs ih =>
            intro acc
            simp only [allocNums]
            obtain ⟨r1, r2⟩ := ih (acc.alloc (.num x)).1
            have hlen : (acc.alloc (.num x)).1.cells.length = acc.cells.length + 1 := by simp [Store.alloc]
            exact ⟨by rw [r1]; rfl, by rw [hlen] at r2; exact Nat.le_of_succ_le r2⟩
        obtain ⟨r1, r2⟩ := key els s
        simp only [exec, hl, evalCell]
        show WF ⟨(allocNums s els).cells ++ [_], (allocNums s els).syms ++ [(n, (allocNums s els).cells.length, mu)]⟩
        rw [r1]
        exact wf_extend s hwf _ n _ mu r2 (by simp) hfresh
      | var x => simp [Stmt.aliasFree] at haf
      | copy x =>
        cases hx : s.lookup x with
        | none => simpa [exec, hl, evalCell, hx] using hwf
        | some p =>
          obtain ⟨cx, bx⟩ := p
          cases hr : s.read cx with
          | none => simpa [exec, hl, evalCell, hx, hr] using hwf
          | some v =>
            by_cases hcp : copyable v = true
            · simp only [exec, hl, evalCell, hx, hr, hcp, if_true, Store.alloc]
              exact wf_extend s hwf _ n _ mu (Nat.le_refl _) (by simp) hfresh
            · simpa [exec, hl, evalCell, hx, hr, hcp] using hwf
      | bad => simpa [exec, hl, evalCell] using hwf
  | assign n ex =>
    cases hv : evalValue s ex with
    | error err => simpa [exec, hv] using hwf
    | ok v =>
      cases hc : mutableCell s n with
      | error err => simpa [exec, hv, hc] using hwf
      | ok c =>
        cases ho : s.read c with
        | none => simpa [exec, hv, hc, ho] using hwf
        | some old =>
          by_cases hcomp : compatible old v = true
          · simp only [exec, hv, hc, ho, hcomp, if_true]; exact wf_write s hwf c v
          · simpa [exec, hv, hc, ho, hcomp] using hwf
  | setIdx n ix v =>
    cases hc : mutableCell s n with
    | error err => simpa [exec, hc] using hwf
    | ok c =>
      cases hr : s.read c with
      | none => simpa [exec, hc, hr] using hwf
      | some old =>
        cases old with
        | mat r cc els => simp only [exec, hc, hr]; exact wf_write s hwf c _
        | num _ => simpa [exec, hc, hr] using hwf
        | blob _ => simpa [exec, hc, hr] using hwf
        | tuple _ => simpa [exec, hc, hr] using hwf
        | record _ => simpa [exec, hc, hr] using hwf
        | table _ _ => simpa [exec, hc, hr] using hwf
  | addAssign op n ex =>
    cases hv : evalValue s ex with
    | error err => simpa [exec, hv] using hwf
    | ok v =>
      cases hc : mutableCell s n with
      | error err => simpa [exec, hv, hc] using hwf
      | ok c =>
        cases ho : s.read c with
        | none => simpa [exec, hv, hc, ho] using hwf
        | some old =>
          cases hnv : addV op old v with
          | none => simpa [exec, hv, hc, ho, hnv] using hwf
          | some nv => simp only [exec, hv, hc, ho, hnv]; exact wf_write s hwf c nv
  | setField n f ex =>
    cases hv : fieldSource s ex with
    | error err => simpa [exec, hv] using hwf
    | ok v =>
      cases hc : mutableCell s n with
      | error err => simpa [exec, hv, hc] using hwf
      | ok c =>
        cases ho : s.read c with
        | none => simpa [exec, hv, hc, ho] using hwf
        | some old =>
          cases hnv : setFieldV f old v with
          | none => simpa [exec, hv, hc, ho, hnv] using hwf
          | some nv => simp only [exec, hv, hc, ho, hnv]; exact wf_write s hwf c nv
  | destructure ns t => simp [Stmt.aliasFree] at haf

/-- … hence every store reached from the empty one by sharing-free statements is well formed. -/
theorem C05_reachable_wf : ∀ (sts : List Stmt) (s : Store), WF s → (∀ st ∈ sts, st.aliasFree = true) → WF (run s sts) := by
  intro sts
  induction sts with
  | nil => intro s h _; exact h
  | cons st rest ih =>
    intro s h haf
    exact ih _ (C05_no_alias_inv s h st (haf st List.mem_cons_self)) (fun x hx => haf x (List.mem_cons_of_mem _ hx))

/-! ### the full statement fails at the pinned commit -/

def readName (s : Store) (n : Name) : Option V :=
  match s.lookup n with
  | some (c, _) => s.read c
  | none => none

/-- D1: `~x := 5; y := x; x = 10` changes the immutable `y`. -/
theorem C05_counterexample_D1 :
    readName (run Store.empty [.define true "x" (.lit (.num 5)), .define false "y" (.var "x"),
      .assign "x" (.lit (.num 10))]) "y" = some (.num 10) := by decide

/-- D2: destructured names are mutable aliases of the tuple's element cells. -/
theorem C05_counterexample_D2 :
    let s := run Store.empty [.define true "t" (.tupleLit [1, 2]), .destructure ["a", "b"] "t",
      .assign "a" (.lit (.num 10))]
    (match readName s "t" with
     | some (.tuple (c :: _)) => s.read c
     | _ => none) = some (.num 10) := by decide

/-- D3: a failing multi-index write has already written (cf. C04-D4). -/
theorem C05_counterexample_D3 :
    exec (run Store.empty [.define true "m" (.lit (.mat 1 3 [1, 2, 3]))]) (.setIdx "m" [1, 7] 4)
      = (⟨[.mat 1 3 [4, 2, 3]], [("m", 0, true)]⟩, .error .index) := by decide

/-! ### non-vacuity -/
example : WF (run Store.empty [.define true "x" (.lit (.num 5)), .define false "y" (.copy "x")]) := by
  refine ⟨?_, ?_, ?_⟩ <;> decide
example : readName (run Store.empty [.define true "x" (.lit (.num 5)), .define false "y" (.copy "x"),
    .assign "x" (.lit (.num 10))]) "y" = some (.num 5) := by decide

/-! ### field and column assignment -/

theorem map_update_names (f : String) (x : β) (fs : List (String × β)) :
    (fs.map (fun p => if p.1 == f then (p.1, x) else p)).map (·.1) = fs.map (·.1) := by
  induction fs with
  | nil => rfl
  | cons p fs ih =>
    simp only [List.map_cons, ih]
    cases (p.1 == f) <;> rfl

theorem map_update_other (f g : String) (hg : g ≠ f) (x : β) (fs : List (String × β)) :
    (fs.map (fun p => if p.1 == f then (p.1, x) else p)).filter (fun p => p.1 == g) = fs.filter (fun p => p.1 == g) := by
  induction fs with
  | nil => rfl
  | cons p fs ih =>
    simp only [List.map_cons, List.filter_cons, ih]
    by_cases hp : (p.1 == f) = true
    · have hpf : p.1 = f := by simpa using hp
      have hpg : (p.1 == g) = false := by
        have : p.1 ≠ g := by rw [hpf]; exact fun e => hg e.symm
        simpa using this
      simp only [hp, if_true, hpg, Bool.false_eq_true, if_false]
    · have hp' : (p.1 == f) = false := by simpa using hp
      simp only [hp', Bool.false_eq_true, if_false]

/-- `r.f = x` on a record changes the field `f` and nothing else: the field names stay as they
    are and every other field keeps its value. -/
theorem C05_record_field_assign_frame (f : String) (fs : List (String × Int)) (x : Int) (v : V)
    (h : setFieldV f (.record fs) (.num x) = some v) :
    ∃ fs', v = .record fs' ∧ fs'.map (·.1) = fs.map (·.1) ∧
      ∀ g, g ≠ f → fs'.filter (fun p => p.1 == g) = fs.filter (fun p => p.1 == g) := by
  simp only [setFieldV] at h
  split at h
  · simp only [Option.some.injEq] at h
    exact ⟨_, h.symm, map_update_names f x fs, fun g hg => map_update_other f g hg x fs⟩
  · cases h

/-- `t.f = column` on a table takes only a column of exactly the table's length, keeps the row
    count and the column names, and leaves every other column as it is. -/
theorem C05_table_column_assign_frame (f : String) (rows : Nat) (cols : List (String × List Int)) (r c : Nat)
    (els : List Int) (v : V) (h : setFieldV f (.table rows cols) (.mat r c els) = some v) :
    els.length = rows ∧ ∃ cols', v = .table rows cols' ∧ cols'.map (·.1) = cols.map (·.1) ∧
      ∀ g, g ≠ f → cols'.filter (fun p => p.1 == g) = cols.filter (fun p => p.1 == g) := by
  simp only [setFieldV] at h
  split at h
  · next hc =>
    simp only [Option.some.injEq] at h
    exact ⟨hc.2.2.2.1, _, h.symm, map_update_names f els cols, fun g hg => map_update_other f g hg els cols⟩
  · cases h

/-- a column of another length is refused (the pinned commit wrote part of it and panicked;
    repaired by a `fix:` commit) -/
theorem C05_table_column_wrong_length_rejected (f : String) (rows : Nat) (cols : List (String × List Int)) (r c : Nat)
    (els : List Int) (h : els.length ≠ rows) : setFieldV f (.table rows cols) (.mat r c els) = none := by
  simp only [setFieldV]
  rw [if_neg]
  intro hc; exact h hc.2.2.2.1

end MechVerif.Store

/-! ### the binding decisions as they are written

`Gen/BindSkel.lean` is regenerated from statements.rs, symbol_table.rs and functions.rs on every run
(`tools/extract_bind.py`); `C05_binding_decisions_as_written` (`decide`) says the extracted record is `expected`. -/
namespace MechVerif.BindIR
open MechVerif.Store

/-- **The target lookup of `=` and of `+= -= *= /=`, as written, is the model's**: a mutable name gives its cell, a name
    defined without `~` is `NotMutable`, an undefined name is `UndefinedVariable` — for every store and every name. -/
theorem C05_lookup_as_written_is_the_model (s : Store) (n : Name) :
    lookupAsWritten Gen.BindSkel.skel.assign s n = mutableCell s n ∧
    lookupAsWritten Gen.BindSkel.skel.opAssign s n = mutableCell s n := by
  rw [Gen.BindSkel.C05_binding_decisions_as_written]
  constructor <;> (
    unfold lookupAsWritten mutableCell
    cases s.lookup n with
    | none => rfl
    | some p => obtain ⟨c, m⟩ := p; cases m <;> rfl)

/-- **A definition, as written, refuses an existing name before it evaluates anything**, exactly when the model does:
    the prologue answers `VariableAlreadyDefined` iff the name is bound, and then `exec` returns the store unchanged. -/
theorem C05_define_prologue_as_written (s : Store) (m : Bool) (n : Name) (e : Expr) :
    (definePrologue Gen.BindSkel.skel.define s n = some .redefine ↔ (s.lookup n).isSome = true) ∧
    (definePrologue Gen.BindSkel.skel.define s n = some .redefine → exec s (.define m n e) = (s, .error .redefine)) := by
  rw [Gen.BindSkel.C05_binding_decisions_as_written]
  have key : definePrologue expected.define s n = some .redefine ↔ (s.lookup n).isSome = true := by
    unfold definePrologue
    cases h : (s.lookup n).isSome <;> simp [expected, errOf]
  refine ⟨key, ?_⟩
  intro h
  have hs := key.mp h
  simp only [exec, hs, if_true]

/-! non-vacuity: a lookup among all variables, exchanged errors, or a definition that saves before the test are refused -/
example : ({ expected with assign := ⟨true, false, "NotMutableError", "UndefinedVariableError"⟩ } : Skel) ≠ expected := by decide
example : ({ expected with define := ⟨false, "VariableAlreadyDefinedError", true, true, false⟩ } : Skel) ≠ expected := by decide
example : ({ expected with functionInputsImmutable := false } : Skel) ≠ expected := by decide

end MechVerif.BindIR
