import MechVerif.Model.AccessIR
import MechVerif.Lemmas.Index
namespace MechVerif.AccessIR
open MechVerif.Num MechVerif.Mat MechVerif.Index

variable {α β γ : Type}

/-! ### sequencing -/

theorem tabulateM_eq_seqM (g : Nat → Except Err β) : ∀ (n s : Nat),
    tabulateM g s n = seqM ((List.range n).map (fun k => g (s + k))) := by
  intro n
  induction n with
  | zero => intro s; rfl
  | succ n ih =>
    intro s
    rw [List.range_succ_eq_map]
    simp only [List.map_cons, List.map_map, tabulateM, seqM, Nat.add_zero]
    have : ((fun k => g (s + k)) ∘ Nat.succ) = (fun k => g (s + 1 + k)) := by
      funext k; simp only [Function.comp]; congr 1; omega
    rw [this, ← ih (s + 1)]
    all_goals rfl

theorem tabulateM_zero_eq_seqM (g : Nat → Except Err β) (n : Nat) :
    tabulateM g 0 n = seqM ((List.range n).map g) := by
  rw [tabulateM_eq_seqM]; simp

/-- reading a list by position is reading it element by element -/
theorem range_flatMap_getE (l : List β) (φ : Except Err β → List γ) :
    (List.range l.length).flatMap (fun c => φ (getE l c)) = l.flatMap (fun x => φ (.ok x)) := by
  induction l with
  | nil => rfl
  | cons x xs ih =>
    rw [List.length_cons, List.range_succ_eq_map, List.flatMap_cons, List.flatMap_cons]
    congr 1
    rw [List.flatMap_map]
    exact ih

theorem range_map_getE (l : List β) (φ : Except Err β → γ) :
    (List.range l.length).map (fun c => φ (getE l c)) = l.map (fun x => φ (.ok x)) := by
  induction l with
  | nil => rfl
  | cons x xs ih =>
    rw [List.length_cons, List.range_succ_eq_map, List.map_cons, List.map_cons]
    congr 1
    rw [List.map_map]
    exact ih

/-- the linear index of a column-major table: position `k` is row `k % a` of column `k / a` -/
theorem range_mul_flatMap (a : Nat) (h : Nat → Nat → γ) : ∀ b : Nat,
    (List.range (a * b)).map (fun k => h (k % a) (k / a)) =
      (List.range b).flatMap (fun c => (List.range a).map (fun r => h r c)) := by
  intro b
  induction b with
  | zero => simp
  | succ b ih =>
    rw [Nat.mul_succ, List.range_add, List.map_append, ih, List.range_succ, List.flatMap_append]
    congr 1
    simp only [List.flatMap_cons, List.flatMap_nil, List.append_nil, List.map_map]
    apply List.map_congr_left
    intro r hr
    have hr' : r < a := List.mem_range.mp hr
    simp only [Function.comp]
    have h1 : (a * b + r) % a = r := by rw [Nat.mul_add_mod]; exact Nat.mod_eq_of_lt hr'
    have h2 : (a * b + r) / a = b := by
      rw [Nat.mul_add_div (by omega : a > 0), Nat.div_eq_of_lt hr']; omega
    rw [h1, h2]

/-! ### the model's gathers as sequences over the selected indices -/

theorem gather1_eq_seqM (m : Mat α) (ix : List Nat) :
    gather1 m ix = seqM (ix.map (fun i => bindE (pred1 i) (getLin m))) := by
  unfold gather1
  rw [tabulateM_zero_eq_seqM]
  congr 1
  exact range_map_getE ix (fun e => bindE e (fun i => bindE (pred1 i) (getLin m)))

theorem gather2_eq_seqM (m : Mat α) (R C : List Nat) :
    gather2 m R C = seqM (C.flatMap (fun c => R.map (fun r =>
      bindE (pred1 r) (fun r0 => bindE (pred1 c) (fun c0 => getRC m r0 c0))))) := by
  unfold gather2
  rw [tabulateM_zero_eq_seqM]
  congr 1
  rw [range_mul_flatMap R.length (fun r c => bindE (getE R r) (fun r => bindE (getE C c) (fun c =>
      bindE (pred1 r) (fun r0 => bindE (pred1 c) (fun c0 => getRC m r0 c0))))) C.length]
  have inner : ∀ c : Nat, (List.range R.length).map (fun r => bindE (getE R r) (fun r => bindE (getE C c) (fun c =>
      bindE (pred1 r) (fun r0 => bindE (pred1 c) (fun c0 => getRC m r0 c0))))) =
      R.map (fun r => bindE (getE C c) (fun c => bindE (pred1 r) (fun r0 => bindE (pred1 c) (fun c0 => getRC m r0 c0)))) := by
    intro c
    exact range_map_getE R (fun e => bindE e (fun r => bindE (getE C c) (fun c =>
      bindE (pred1 r) (fun r0 => bindE (pred1 c) (fun c0 => getRC m r0 c0)))))
  simp only [inner]
  exact range_flatMap_getE C (fun e => R.map (fun r => bindE e (fun c =>
      bindE (pred1 r) (fun r0 => bindE (pred1 c) (fun c0 => getRC m r0 c0)))))

/-! ### one axis -/

theorem maskIxAux_eq (l : List Bool) : ∀ k : Nat,
    maskIxAux l k = ((List.range l.length).filter (fun v => l.getD v false)).map (fun v => v + k + 1) := by
  induction l with
  | nil => intro k; rfl
  | cons b bs ih =>
    intro k
    rw [List.length_cons, List.range_succ_eq_map, maskIxAux]
    have hf : (List.filter (fun v => (b :: bs).getD v false) (List.map Nat.succ (List.range bs.length))) =
        List.map Nat.succ (List.filter (fun v => bs.getD v false) (List.range bs.length)) := by
      rw [List.filter_map]; rfl
    cases b with
    | true =>
      simp only [if_true, List.filter_cons, List.getD_cons_zero, List.map_cons]
      rw [hf, ih (k + 1), List.map_map]
      congr 1
      · omega
      · apply List.map_congr_left; intro v _; simp only [Function.comp]; omega
    | false =>
      simp only [Bool.false_eq_true, if_false, List.filter_cons, List.getD_cons_zero]
      rw [hf, ih (k + 1), List.map_map]
      apply List.map_congr_left; intro v _; simp only [Function.comp]; omega

theorem maskIx_eq (l : List Bool) :
    maskIx l = ((List.range l.length).filter (fun v => l.getD v false)).map (fun v => v + 1) := by
  unfold maskIx; rw [maskIxAux_eq]

theorem pred1_succ (v : Nat) : pred1 (v + 1) = .ok v := by simp [pred1]

/-- An accepted axis reads the indices its selector addresses: either the mask's length check fails on
    both sides, or the loop variable's values, turned into coordinates, are the selected 1-based
    indices minus one, one by one. -/
theorem axis_reads (m : Mat α) (args : List Arg) (d : Dim) (ax : Axis) (s : Sel)
    (hok : axisOk d ax = true) (hs : selOf args ax = some s) :
    (guardOk m args ax = .error .dim ∧ selIxs s (dimOf m d) = .error .dim) ∨
    (∃ vs ix, guardOk m args ax = .ok () ∧ loopVals m args ax = .ok vs ∧ selIxs s (dimOf m d) = .ok ix ∧
      vs.map (coord args ax) = ix.map pred1) := by
  cases ax with
  | scalar a m1 =>
    simp only [axisOk] at hok; subst hok
    simp only [selOf] at hs
    cases ha : args[a]? with
    | none => rw [ha] at hs; cases hs
    | some v =>
      rw [ha] at hs
      cases v with
      | scalar i =>
        simp only [Option.some.injEq] at hs; subst hs
        exact Or.inr ⟨[0], [i], rfl, rfl, rfl, by simp [coord, ha]⟩
      | ixs l => cases hs
      | bools l => cases hs
  | vec a m1 b =>
    simp only [axisOk, Bool.and_eq_true, decide_eq_true_eq] at hok
    obtain ⟨h1, h2⟩ := hok; subst h1; subst h2
    simp only [selOf] at hs
    cases ha : args[a]? with
    | none => rw [ha] at hs; cases hs
    | some v =>
      rw [ha] at hs
      cases v with
      | scalar i => cases hs
      | bools l => cases hs
      | ixs l =>
        simp only [Option.some.injEq] at hs; subst hs
        refine Or.inr ⟨List.range l.length, l, rfl, ?_, rfl, ?_⟩
        · simp [loopVals, boundVal, argLen, ha, mapE]
        · have := range_map_getE l (fun e => bindE e pred1)
          show (List.range l.length).map (coord args (.vec a true (.argLen a))) = l.map pred1
          have hc : coord args (.vec a true (.argLen a)) = (fun c => bindE (getE l c) pred1) := by
            funext v; simp only [coord, ha, if_true]
          rw [hc, this]
          apply List.map_congr_left; intro x _; rfl
  | all b =>
    simp only [axisOk, decide_eq_true_eq] at hok; subst hok
    simp only [selOf, Option.some.injEq] at hs; subst hs
    refine Or.inr ⟨List.range (dimOf m d), (List.range (dimOf m d)).map (· + 1), rfl, rfl, rfl, ?_⟩
    rw [List.map_map]
    apply List.map_congr_left; intro v _
    simp only [coord, Function.comp, pred1_succ]
  | mask a b g =>
    simp only [axisOk, Bool.and_eq_true, Bool.or_eq_true, decide_eq_true_eq] at hok
    obtain ⟨hg, hb⟩ := hok; subst hg
    simp only [selOf] at hs
    cases ha : args[a]? with
    | none => rw [ha] at hs; cases hs
    | some v =>
      rw [ha] at hs
      cases v with
      | scalar i => cases hs
      | ixs l => cases hs
      | bools l =>
        simp only [Option.some.injEq] at hs; subst hs
        by_cases hlen : l.length = dimOf m d
        · refine Or.inr ⟨(List.range l.length).filter (fun v => l.getD v false), maskIx l, ?_, ?_, ?_, ?_⟩
          · simp [guardOk, argLen, ha, bindE, hlen]
          · have hbv : boundVal m args b = .ok l.length := by
              rcases hb with hb | hb <;> subst hb <;> simp [boundVal, argLen, ha, hlen]
            simp [loopVals, hbv, bindE, ha]
          · simp [selIxs, hlen]
          · rw [maskIx_eq, List.map_map]
            apply List.map_congr_left; intro v _
            simp only [coord, Function.comp, pred1_succ]
        · refine Or.inl ⟨?_, ?_⟩
          · simp [guardOk, argLen, ha, bindE, hlen]
          · simp [selIxs, hlen]

/-! ### whole kernels -/

/-- **Linear kernels.**  An accepted kernel that indexes the source with one coordinate reads what
    `gather1` reads for the selector its index argument holds. -/
theorem run_linear (ir : AIR) (hok : airOk ir = true) (hrow : ir.row = none) (m : Mat α) (args : List Arg)
    (s : Sel) (hs : selOf args ir.col = some s) :
    run ir m args = bindE (selIxs s (m.rows * m.cols)) (gather1 m) := by
  have hax : axisOk .len ir.col = true := by
    simp only [airOk, hrow, Bool.and_eq_true] at hok; exact hok.2
  unfold run; rw [hrow]
  rcases axis_reads m args .len ir.col s hax hs with ⟨hg, hsel⟩ | ⟨vs, ix, hg, hl, hsel, hmap⟩
  · have hsel' : selIxs s (m.rows * m.cols) = .error .dim := hsel
    rw [hg, hsel']; rfl
  · have hsel' : selIxs s (m.rows * m.cols) = .ok ix := hsel
    rw [hg, hl, hsel']
    show seqM (vs.map (fun v => bindE (coord args ir.col v) (getLin m))) = gather1 m ix
    rw [gather1_eq_seqM]
    congr 1
    have : vs.map (fun v => bindE (coord args ir.col v) (getLin m)) =
        (vs.map (coord args ir.col)).map (fun e => bindE e (getLin m)) := by rw [List.map_map]; rfl
    rw [this, hmap, List.map_map]; rfl

/-- the nest order is immaterial when one of the two loops has a single turn -/
theorem nest_single_left (x : Nat) (cs : List Nat) (cell : Nat → Nat → γ) :
    [x].flatMap (fun r => cs.map (fun c => cell r c)) = cs.flatMap (fun c => [x].map (fun r => cell r c)) := by
  induction cs with
  | nil => rfl
  | cons c cs ih => simp only [List.flatMap_cons, List.flatMap_nil, List.append_nil, List.map_cons, List.map_nil,
      List.cons_append, List.nil_append] at ih ⊢; rw [ih]

theorem nest_single_right (rs : List Nat) (y : Nat) (cell : Nat → Nat → γ) :
    rs.flatMap (fun r => [y].map (fun c => cell r c)) = [y].flatMap (fun c => rs.map (fun r => cell r c)) := by
  induction rs with
  | nil => rfl
  | cons r rs ih => simp only [List.flatMap_cons, List.flatMap_nil, List.append_nil, List.map_cons, List.map_nil,
      List.cons_append, List.nil_append] at ih ⊢; rw [ih]

/-- **Two-coordinate kernels.**  An accepted kernel that indexes the source with a (row, column) pair
    reads, in the order it fills its output, what `gather2` reads for the two selectors its index
    arguments hold — column by column. -/
theorem run_two (ir : AIR) (hok : airOk ir = true) (rowAx : Axis) (hrow : ir.row = some rowAx) (m : Mat α)
    (args : List Arg) (s1 s2 : Sel) (hs1 : selOf args rowAx = some s1) (hs2 : selOf args ir.col = some s2) :
    run ir m args =
      bindE (selIxs s1 m.rows) (fun R => bindE (selIxs s2 m.cols) (fun C => gather2 m R C)) := by
  simp only [airOk, hrow, Bool.and_eq_true] at hok
  obtain ⟨_, ⟨hr, hc⟩, hord⟩ := hok
  unfold run; rw [hrow]; simp only
  rcases axis_reads m args .rows rowAx s1 hr hs1 with ⟨hg1, hsel1⟩ | ⟨rs, R, hg1, hl1, hsel1, hmap1⟩
  · have hsel1' : selIxs s1 m.rows = .error .dim := hsel1
    rw [hg1, hsel1']; rfl
  · have hsel1' : selIxs s1 m.rows = .ok R := hsel1
    rcases axis_reads m args .cols ir.col s2 hc hs2 with ⟨hg2, hsel2⟩ | ⟨cs, C, hg2, hl2, hsel2, hmap2⟩
    · have hsel2' : selIxs s2 m.cols = .error .dim := hsel2
      rw [hg1, hg2, hsel1', hsel2']; rfl
    · have hsel2' : selIxs s2 m.cols = .ok C := hsel2
      rw [hg1, hg2, hl1, hl2, hsel1', hsel2']
      show (if ir.colOuter = true then
              seqM (cs.flatMap (fun c => rs.map (fun r =>
                bindE (coord args rowAx r) (fun r0 => bindE (coord args ir.col c) (fun c0 => getRC m r0 c0)))))
            else
              seqM (rs.flatMap (fun r => cs.map (fun c =>
                bindE (coord args rowAx r) (fun r0 => bindE (coord args ir.col c) (fun c0 => getRC m r0 c0)))))) =
           gather2 m R C
      rw [gather2_eq_seqM]
      -- the column-outer nest, written over the coordinates
      have colNest : cs.flatMap (fun c => rs.map (fun r =>
            bindE (coord args rowAx r) (fun r0 => bindE (coord args ir.col c) (fun c0 => getRC m r0 c0)))) =
          C.flatMap (fun c => R.map (fun r =>
            bindE (pred1 r) (fun r0 => bindE (pred1 c) (fun c0 => getRC m r0 c0)))) := by
        have e1 : cs.flatMap (fun c => rs.map (fun r =>
            bindE (coord args rowAx r) (fun r0 => bindE (coord args ir.col c) (fun c0 => getRC m r0 c0)))) =
            (cs.map (coord args ir.col)).flatMap (fun cc => (rs.map (coord args rowAx)).map (fun rc =>
              bindE rc (fun r0 => bindE cc (fun c0 => getRC m r0 c0)))) := by
          rw [List.flatMap_map]; congr 1; funext c; rw [List.map_map]; rfl
        rw [e1, hmap1, hmap2, List.flatMap_map]; congr 1; funext c; rw [List.map_map]; rfl
      by_cases hco : ir.colOuter = true
      · rw [if_pos hco]; congr 1
      · rw [if_neg hco]
        congr 1
        rw [← colNest]
        simp only [hco, Bool.false_eq_true, Bool.or_eq_true, false_or] at hord
        -- one of the two axes is a scalar: its loop has one turn
        cases hrx : rowAx with
        | scalar a m1 =>
          rw [hrx] at hl1; simp only [loopVals, Except.ok.injEq] at hl1; subst hl1
          exact nest_single_left 0 cs _
        | vec a m1 b =>
          cases hcx : ir.col with
          | scalar a2 m2 =>
            rw [hcx] at hl2; simp only [loopVals, Except.ok.injEq] at hl2; subst hl2
            exact nest_single_right rs 0 _
          | _ => rw [hrx, hcx] at hord; simp at hord
        | mask a b g =>
          cases hcx : ir.col with
          | scalar a2 m2 =>
            rw [hcx] at hl2; simp only [loopVals, Except.ok.injEq] at hl2; subst hl2
            exact nest_single_right rs 0 _
          | _ => rw [hrx, hcx] at hord; simp at hord
        | all b =>
          cases hcx : ir.col with
          | scalar a2 m2 =>
            rw [hcx] at hl2; simp only [loopVals, Except.ok.injEq] at hl2; subst hl2
            exact nest_single_right rs 0 _
          | _ => rw [hrx, hcx] at hord; simp at hord

end MechVerif.AccessIR
