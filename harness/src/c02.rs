//! C02: precedence and associativity. Case: `prec <token> <token> …` where a token is an
//! operand literal, an operator symbol, `(`, `)`, a prefix `neg` / `not` or the postfix `tr` (transpose).
//! Observation: `tree:<s-expr of the real parse tree>#p:<fully parenthesised text>#same:<bool>`
//! where `same` says whether `interpret(e)` and `interpret(paren(e))` agree bit for bit.
use crate::common::*;
use crate::interp::*;
use mech_core::*;
use mech_core::nodes::*;

pub const BINOPS: &[(&str, &str, u8)] = &[
  ("||", "or", 1), ("&&", "and", 1), ("⊕", "xor", 1),
  ("==", "eq", 2), ("!=", "ne", 2), ("<", "lt", 2), ("<=", "le", 2), (">", "gt", 2), (">=", "ge", 2),
  ("+", "add", 3), ("-", "sub", 3), ("*", "mul", 4), ("/", "div", 4), ("%", "mod", 4), ("^", "pow", 5),
  // table operators (level 6) and set operators (level 7, the tightest binary level)
  ("⋈", "join", 6), ("⟕", "ljoin", 6), ("⟖", "rjoin", 6), ("⟗", "fjoin", 6), ("⋉", "semi", 6), ("▷", "anti", 6),
  ("∪", "union", 7), ("∩", "inter", 7), ("∖", "diff", 7), ("Δ", "symdiff", 7), ("⊆", "subset", 7), ("⊇", "superset", 7),
  ("⊊", "psubset", 7), ("⊋", "psuperset", 7), ("∈", "elem", 7), ("∉", "notelem", 7),
  // the matrix operators share level 4 with * / %
  ("**", "matmul", 4), ("·", "dot", 4), ("⨯", "cross", 4), ("\\", "solve", 4),
  // strict equality and inequality, comparisons of level 2
  ("=:=", "seq", 2), ("=!=", "sne", 2)];

/// operands of table and set operators are the names of this prelude (evaluated before the formula)
const PRELUDE: &str = "sa := {1, 2, 3}\nsb := {2, 3}\nsc := {3}\nsd := {1, 4}\nta := |x<u8> y<u8>| 1 2 | 3 4 |\ntb := |x<u8> z<u8>| 1 5 | 7 8 |\ntc := |x<u8> w<u8>| 3 9 | 1 6 |\nma := [1 2; 3 4]\nmb := [0 1; 1 1]\nmc := [2 0; 1 3]\nva := [1 2 3]\nvb := [4 5 6]\nvc := [7 8 10]\n";
const NAMED: &[&str] = &["sa", "sb", "sc", "sd", "ta", "tb", "tc", "ma", "mb", "mc", "va", "vb", "vc"];

fn op_name(op: &FormulaOperator) -> String {
  match op {
    FormulaOperator::AddSub(AddSubOp::Add) => "add", FormulaOperator::AddSub(AddSubOp::Sub) => "sub",
    FormulaOperator::MulDiv(MulDivOp::Mul) => "mul", FormulaOperator::MulDiv(MulDivOp::Div) => "div", FormulaOperator::MulDiv(MulDivOp::Mod) => "mod",
    FormulaOperator::Power(_) => "pow",
    FormulaOperator::Vec(v) => match v { VecOp::MatMul => "matmul", VecOp::Dot => "dot", VecOp::Cross => "cross", VecOp::Solve => "solve" },
    FormulaOperator::Comparison(c) => match c { ComparisonOp::Equal => "eq", ComparisonOp::NotEqual => "ne", ComparisonOp::LessThan => "lt",
      ComparisonOp::LessThanEqual => "le", ComparisonOp::GreaterThan => "gt", ComparisonOp::GreaterThanEqual => "ge", ComparisonOp::StrictEqual => "seq", ComparisonOp::StrictNotEqual => "sne", _ => "cmp?" },
    FormulaOperator::Logic(l) => match l { LogicOp::And => "and", LogicOp::Or => "or", LogicOp::Xor => "xor", LogicOp::Not => "not" },
    FormulaOperator::Table(t) => match t { TableOp::InnerJoin => "join", TableOp::LeftOuterJoin => "ljoin", TableOp::RightOuterJoin => "rjoin",
      TableOp::FullOuterJoin => "fjoin", TableOp::LeftSemiJoin => "semi", TableOp::LeftAntiJoin => "anti" },
    FormulaOperator::Set(x) => match x { SetOp::Union => "union", SetOp::Intersection => "inter", SetOp::Difference => "diff", SetOp::SymmetricDifference => "symdiff",
      SetOp::Subset => "subset", SetOp::Superset => "superset", SetOp::ProperSubset => "psubset", SetOp::ProperSuperset => "psuperset",
      SetOp::ElementOf => "elem", SetOp::NotElementOf => "notelem", _ => "set?" },
    _ => "op?",
  }.to_string()
}

/// s-expression of a parsed factor; a `Term` is written as the left fold it denotes
fn sexpr(f: &Factor) -> String {
  match f {
    Factor::Term(t) => {
      let mut acc = sexpr(&t.lhs);
      for (op, rhs) in &t.rhs { acc = format!("({} {} {})", op_name(op), acc, sexpr(rhs)); }
      acc
    }
    Factor::Parenthetical(x) => format!("(paren {})", sexpr(x)),
    Factor::Negate(x) => format!("(neg {})", sexpr(x)),
    Factor::Not(x) => format!("(not {})", sexpr(x)),
    Factor::Transpose(x) => format!("(tr {})", sexpr(x)),
    Factor::Expression(e) => match &**e {
      Expression::Formula(f2) => sexpr(f2),
      other => other.tokens().iter().map(|t| t.to_string()).collect::<Vec<_>>().join(""),
    },
  }
}

/// fully parenthesised text of the real tree, grouping each Term from the left
fn paren_text(f: &Factor) -> String {
  match f {
    Factor::Term(t) => {
      let mut acc = paren_text(&t.lhs);
      for (op, rhs) in &t.rhs {
        let sym = BINOPS.iter().find(|(_, n, _)| *n == op_name(op)).map(|x| x.0).unwrap_or("?");
        acc = format!("({} {} {})", acc, sym, paren_text(rhs));
      }
      acc
    }
    Factor::Parenthetical(x) => format!("({})", paren_text(x)),
    Factor::Negate(x) => format!("(-{})", paren_text(x)),
    Factor::Not(x) => format!("(!{})", paren_text(x)),
    Factor::Transpose(x) => format!("({}')", paren_text(x)),
    Factor::Expression(e) => match &**e {
      Expression::Formula(f2) => paren_text(f2),
      other => other.tokens().iter().map(|t| t.to_string()).collect::<Vec<_>>().join(""),
    },
  }
}

/// the documented grouping evaluated one operator at a time: every inner node becomes a
/// definition `tN := <leaf or tK> op <leaf or tK>` (deeply nested parentheses are very slow to
/// parse at this commit, cf. C09-D2, so the parenthesised text itself is not interpreted)
fn stepwise(f: &Factor, lines: &mut Vec<String>, n: &mut usize) -> String {
  match f {
    Factor::Term(t) => {
      let mut acc = stepwise(&t.lhs, lines, n);
      for (op, rhs) in &t.rhs {
        let r = stepwise(rhs, lines, n);
        let sym = BINOPS.iter().find(|(_, nm, _)| *nm == op_name(op)).map(|x| x.0).unwrap_or("?");
        *n += 1; let name = format!("t{}", n);
        lines.push(format!("{} := {} {} {}", name, acc, sym, r));
        acc = name;
      }
      acc
    }
    Factor::Parenthetical(x) => stepwise(x, lines, n),
    Factor::Negate(x) => { let a = stepwise(x, lines, n); *n += 1; let name = format!("t{}", n); lines.push(format!("{} := -{}", name, a)); name }
    Factor::Not(x) => { let a = stepwise(x, lines, n); *n += 1; let name = format!("t{}", n); lines.push(format!("{} := !{}", name, a)); name }
    Factor::Transpose(x) => { let a = stepwise(x, lines, n); *n += 1; let name = format!("t{}", n); lines.push(format!("{} := {}'", name, a)); name }
    Factor::Expression(e) => match &**e {
      Expression::Formula(f2) => stepwise(f2, lines, n),
      other => other.tokens().iter().map(|t| t.to_string()).collect::<Vec<_>>().join(""),
    },
  }
}

fn find_formula(tree: &Program) -> Option<Factor> {
  for s in &tree.body.sections { for el in &s.elements {
    if let SectionElement::MechCode(codes) = el { for (c, _) in codes {
      match c {
        MechCode::Expression(Expression::Formula(f)) => return Some(f.clone()),
        MechCode::Expression(e) => return Some(Factor::Expression(Box::new(e.clone()))),
        _ => {}
      }
    }}
  }}
  None
}

/// s-expression of the first formula of a program, or why there is none
pub fn tree_of(src: &str) -> String {
  match parse_code(src) { Ok(t) => match find_formula(&t) { Some(f) => sexpr(&f), None => "noformula".into() }, Err(e) => format!("noparse:{}", e) }
}

pub fn source(case: &str) -> String {
  let f: Vec<&str> = case.split('\t').collect();
  let mut s = String::new();
  let toks: Vec<&str> = f[1].split(' ').collect();
  for (i, t) in toks.iter().enumerate() {
    match *t {
      "neg" => s.push('-'),
      "not" => s.push('!'),
      "tr" => s.push('\''),
      "(" => s.push('('),
      ")" => s.push(')'),
      x => {
        if let Some((sym, _, _)) = BINOPS.iter().find(|(_, n, _)| *n == x) { s.push(' '); s.push_str(sym); s.push(' '); }
        else { s.push_str(x); }
      }
    }
    let _ = i;
  }
  s
}

pub fn exec(case: &str) -> String {
  let src = source(case);
  // formulas over sets or tables are evaluated after the prelude that defines their operands
  let high = case.split('\t').nth(1).unwrap_or("").split(' ').any(|t| NAMED.contains(&t) || BINOPS.iter().any(|b| b.2 >= 6 && b.1 == t));
  let pre = if high { PRELUDE } else { "" };
  let src = format!("{}{}", pre, src);
  let tree = match parse_code(&src) { Ok(t) => t, Err(e) => return format!("noparse:{}", e) };
  let f = match find_formula(&tree) { Some(f) => f, None => return "noformula".into() };
  let sx = sexpr(&f);
  let ptext = paren_text(&f);
  let v1 = eval_obs(&src);
  let mut lines = vec![]; let mut n = 0;
  let last = stepwise(&f, &mut lines, &mut n);
  lines.push(last);
  let v2 = eval_obs(&format!("{}{}", pre, lines.join("\n")));
  // errors: compare as "error"; the kind of error may differ with the grouping
  let n = |v: &str| if v.starts_with("err:") { "err".to_string() } else { v.to_string() };
  format!("tree:{}#p:{}#same:{}", sx, ptext, n(&v1) == n(&v2))
}

fn operand(rng: &mut Rng, want_bool: bool) -> String {
  if want_bool { (*rng.pick(&["true", "false"])).to_string() } else { (*rng.pick(&["2", "3", "5", "7", "4", "8", "10", "1"])).to_string() }
}

pub fn generate(seed: u64, thorough: bool, sink: &mut Sink) -> Vec<String> {
  let mut rng = Rng::new(seed);
  let mut cases = vec![];
  let names: Vec<&str> = BINOPS.iter().filter(|x| x.2 <= 5).map(|x| x.1).collect();
  // exhaustive: every operator sequence of length 1..3 (thorough: 4), numeric operands
  let maxlen = if thorough { 4 } else { 3 };
  let mut seqs: Vec<Vec<usize>> = vec![vec![]];
  for _ in 0..maxlen {
    let mut next = vec![];
    for s in &seqs { if s.len() == seqs.last().unwrap().len() { for k in 0..names.len() { let mut t = s.clone(); t.push(k); next.push(t); } } }
    seqs.extend(next);
  }
  for s in seqs.iter().filter(|s| !s.is_empty()) {
    let mut toks = vec![operand(&mut rng, false)];
    for k in s { toks.push(names[*k].to_string()); toks.push(operand(&mut rng, false)); }
    cases.push(format!("prec\t{}", toks.join(" ")));
    sink.hit(&format!("exhaustive-len{}", s.len()));
  }
  // 4-operator sequences, sampled (quick)
  if !thorough { for _ in 0..800 {
    let mut toks = vec![operand(&mut rng, false)];
    for _ in 0..4 { toks.push((*rng.pick(&names)).to_string()); toks.push(operand(&mut rng, false)); }
    cases.push(format!("prec\t{}", toks.join(" "))); sink.hit("sampled-len4");
  }}
  // well-typed chains with comparisons and logic, prefix operators and parentheses
  for _ in 0..(if thorough { 40000 } else { 1500 }) {
    let arith = |rng: &mut Rng, toks: &mut Vec<String>, sink: &mut Sink| {
      let n = 1 + rng.below(4);
      let mut open = 0;
      for i in 0..n {
        if i > 0 { toks.push((*rng.pick(&["add", "sub", "mul", "div", "mod", "pow", "sub", "div", "pow"])).to_string()); }
        if rng.chance(1, 6) && i + 1 < n { toks.push("(".into()); open += 1; sink.hit("paren"); }
        if rng.chance(1, 6) { toks.push("neg".into()); sink.hit("prefix-neg"); }
        toks.push(operand(rng, false));
        if open > 0 && rng.chance(1, 2) { toks.push(")".into()); open -= 1; }
      }
      for _ in 0..open { toks.push(")".into()); }
    };
    let mut toks = vec![];
    let nclauses = 1 + rng.below(3);
    for c in 0..nclauses {
      if c > 0 { toks.push((*rng.pick(&["and", "or", "xor"])).to_string()); }
      match rng.below(4) {
        0 => { if rng.chance(1, 3) { toks.push("not".into()); sink.hit("prefix-not"); } toks.push(operand(&mut rng, true)); }
        _ => { arith(&mut rng, &mut toks, sink); toks.push((*rng.pick(&["lt", "le", "gt", "ge", "eq", "ne"])).to_string()); arith(&mut rng, &mut toks, sink); }
      }
    }
    cases.push(format!("prec\t{}", toks.join(" ")));
    sink.hit("typed-chain");
  }
  // nested formulas: parentheses to depth 3, prefix operators on operands and on parenthesised formulas,
  // transposes of operands and of parenthesised formulas (a transposed scalar is an error when evaluated:
  // the trees are still compared), `a - -b`
  fn nested(rng: &mut Rng, depth: u32, toks: &mut Vec<String>, sink: &mut Sink) {
    let n = 1 + rng.below(3);
    for i in 0..n {
      if i > 0 { toks.push((*rng.pick(&["add", "sub", "mul", "div", "mod", "pow", "sub", "pow"])).to_string()); }
      let neg = rng.chance(1, 5);
      if neg { toks.push("neg".into()); sink.hit("nested:prefix"); }
      if depth > 0 && rng.chance(1, 3) {
        toks.push("(".into()); nested(rng, depth - 1, toks, sink); toks.push(")".into()); sink.hit(&format!("nested:paren-depth{}", 4 - depth));
      } else { toks.push(operand(rng, false)); }
      if rng.chance(1, 12) { toks.push("tr".into()); sink.hit("nested:transpose"); }
    }
  }
  for _ in 0..(if thorough { 20000 } else { 1200 }) {
    let mut toks = vec![];
    match rng.below(3) {
      0 => nested(&mut rng, 3, &mut toks, sink),
      1 => { nested(&mut rng, 2, &mut toks, sink); toks.push((*rng.pick(&["lt", "le", "gt", "ge", "eq", "ne"])).to_string()); nested(&mut rng, 2, &mut toks, sink); }
      _ => { toks.push("not".into()); toks.push("(".into()); nested(&mut rng, 2, &mut toks, sink); toks.push((*rng.pick(&["lt", "ge", "eq"])).to_string()); nested(&mut rng, 1, &mut toks, sink); toks.push(")".into());
             toks.push((*rng.pick(&["and", "or", "xor"])).to_string()); toks.push(operand(&mut rng, true)); }
    }
    cases.push(format!("prec\t{}", toks.join(" ")));
    sink.hit("nested");
  }
  // the two tightest binary levels: set operators (operands sa … sd, numbers on the left of ∈ ∉) and table
  // operators (operands ta, tb, tc): every sequence of one and two operators, sequences of three (quick: sampled),
  // and chains mixed with the looser levels
  let setops: Vec<&str> = BINOPS.iter().filter(|x| x.2 == 7).map(|x| x.1).collect();
  let tabops: Vec<&str> = BINOPS.iter().filter(|x| x.2 == 6).map(|x| x.1).collect();
  let sets = ["sa", "sb", "sc", "sd"]; let tabs = ["ta", "tb", "tc"];
  for (ops, opnds, tag) in [(&setops, &sets[..], "set"), (&tabops, &tabs[..], "table")] {
    for a in ops.iter() {
      cases.push(format!("prec\t{} {} {}", opnds[0], a, opnds[1])); sink.hit(&format!("{}-ops-len1", tag));
      for b in ops.iter() {
        cases.push(format!("prec\t{} {} {} {} {}", opnds[0], a, opnds[1], b, opnds[2])); sink.hit(&format!("{}-ops-len2", tag));
        for c in ops.iter() {
          if !thorough && !rng.chance(1, 4) { continue; }
          cases.push(format!("prec\t{} {} {} {} {} {} {}", opnds[0], a, opnds[1], b, opnds[2], c, opnds[(3) % opnds.len()])); sink.hit(&format!("{}-ops-len3", tag));
        }
      }
    }
  }
  for _ in 0..(if thorough { 6000 } else { 600 }) {
    let n = 2 + rng.below(3);
    let mut toks: Vec<String> = vec![];
    for i in 0..n {
      if i > 0 { let pool: &[&str] = match rng.below(5) { 0 | 1 => &setops, 2 => &tabops, 3 => &["add", "mul", "pow", "sub"], _ => &["eq", "lt", "and", "or"] }; toks.push((*rng.pick(pool)).to_string()); }
      if rng.chance(1, 8) { toks.push("neg".into()); }
      toks.push(match rng.below(4) { 0 => (*rng.pick(&sets)).to_string(), 1 => (*rng.pick(&tabs)).to_string(), _ => operand(&mut rng, false) });
    }
    cases.push(format!("prec\t{}", toks.join(" "))); sink.hit("mixed-with-set-and-table-ops");
  }
  // the matrix operators (** · ⨯ \) next to the element-wise operators of their own level and the looser and
  // tighter levels: every sequence of one and two operators with at least one matrix operator, sequences of
  // three (quick: a quarter), over 2x2 matrices and over 3-vectors, plain, with a transpose or a prefix minus
  let matops = ["matmul", "dot", "cross", "solve"];
  let around = ["matmul", "dot", "cross", "solve", "mul", "div", "mod", "add", "sub", "pow"];
  for (opnds, tag) in [(["ma", "mb", "mc", "ma"], "matrices"), (["va", "vb", "vc", "va"], "vectors")] {
    for a in around.iter() { for b in around.iter() {
      if matops.contains(a) && a == b { cases.push(format!("prec\t{} {} {}", opnds[0], a, opnds[1])); sink.hit("matrix-ops-len1"); }
      if !(matops.contains(a) || matops.contains(b)) { continue; }
      cases.push(format!("prec\t{} {} {} {} {}", opnds[0], a, opnds[1], b, opnds[2])); sink.hit(&format!("matrix-ops-len2:{}", tag));
      if rng.chance(1, 3) { cases.push(format!("prec\t{} tr {} {} {} neg {}", opnds[0], a, opnds[1], b, opnds[2])); sink.hit("matrix-ops-len2:decorated"); }
      for c in around.iter() {
        if !thorough && !rng.chance(1, 4) { continue; }
        cases.push(format!("prec\t{} {} {} {} {} {} {}", opnds[0], a, opnds[1], b, opnds[2], c, opnds[3])); sink.hit("matrix-ops-len3");
      }
    }}
  }
  sink.sample(cases[20].clone()); sink.sample(cases[cases.len() - 1].clone());
  cases
}
