/-
The control skeleton of the state-machine runner as written
(src/interpreter/src/state_machines.rs: `execute_fsm_pipe_impl`, `validate_fsm_state_coverage`,
`validate_transition_target_state`), as a small statement language.

`tools/extract_fsm.py` reads the functions statement by statement and writes the skeleton as a value of
`Stmt` / `Validator` into Gen/FsmSkeleton.lean.  Here: the language, its meaning (`exec`, `runSkeleton`,
`runValidator`) with the leaf operations (`clear_pattern_bindings`, `pattern_matches_value`, the evaluation of a
guard condition, `apply_transitions`, `state_name_from_pattern`) as parameters, and the skeleton the model of
Model/Fsm.lean stands for (`expectedRunner`, `expectedValidator`).

Names of locals are resolved by the extractor to what they are bound to:
  `EnvRef.call`  the parameter `call_env: &mut Environment` (shared by all turns of the loop),
  `EnvRef.arm`   the local bound by `let mut X = <environment>.clone()`,
  `BVar.transitioned`  the local bound by `let mut X = false|true` in the body of the step loop,
  `BVar.matched`  the local bound by `let X = pattern_matches_value(..)?`,
  `BVar.passes`   the local bound by `let X = match &guard.condition { .. }`,
  the register `out`: the local bound by `let X = apply_transitions(..)?`,
  `pattern`, `transitions`, `guards`, `guard`: what the arms of `match arm` and the guard loop bind.
-/
import MechVerif.Model.Fsm
namespace MechVerif.FsmIR

inductive EnvRef where
  | call | arm
deriving DecidableEq, Repr

/-- `transitions` of a `FsmArm::Transition` arm / `guard.transitions` of the guard of the running guard loop -/
inductive TransRef where
  | arm | guard
deriving DecidableEq, Repr

inductive BVar where
  | transitioned | matched | passes
deriving DecidableEq, Repr

inductive BExp where
  | var (v : BVar)
  | not (e : BExp)
deriving DecidableEq, Repr

/-- what the `match cond { Value::Bool(x) => *x.borrow(), other => … }` of a guard does with a value that is not a bool -/
inductive NonBool where
  | error                      -- `return Err(FsmGuardConditionKindMismatchError …)`
  | const (b : Bool)
deriving DecidableEq, Repr

/-- `0..n` / `0..=n` -/
inductive Range where
  | exclusive | inclusive
deriving DecidableEq, Repr

inductive Stmt where
  | skip
  | seq (a b : Stmt)
  | setB (v : BVar) (b : Bool)               -- `let mut transitioned = false;` / `transitioned = true;`
  | clone (src : EnvRef)                     -- `let mut arm_env = src.clone();`
  | assign (dst src : EnvRef)                -- `*dst = src;` (not in the accepted skeleton)
  | clear (e : EnvRef)                       -- `clear_pattern_bindings(pattern, &mut e);`
  | matchPat (e : EnvRef)                    -- `let matched = pattern_matches_value(pattern, state, &mut e, p)?;`
  | guardCond (wildcard : Bool) (e : EnvRef) (nonBool : NonBool)
      -- `let passes = match &guard.condition { Pattern::Wildcard => wildcard,
      --     _ => { let c = pattern_to_value(&guard.condition, &e, p)?; match c { Value::Bool(x) => *x.borrow(), other => nonBool } } };`
  | apply (t : TransRef) (e : EnvRef)        -- `let out = apply_transitions(t, state, &mut e, p)?;`
  | ite (c : BExp) (t f : Stmt)
  | returnIfOut                              -- `if let Some(value) = out { return Ok(value); }`
  | returnState                              -- `return Ok(state.clone());`
  | brk
  | cont
  | forGuards (body : Stmt)                  -- `for (_, guard) in guards.iter().enumerate() { body }`
  | forArms (comment transition guard : Stmt)
      -- `for (_, arm) in fsm.arms.iter().enumerate() { match arm { Comment(_) => comment,
      --     Transition(pattern, transitions) => transition, Guard(pattern, guards) => guard } }`
  | forSteps (r : Range) (body : Stmt)       -- `for step in 0..p.max_steps { body }`
  | failLimit                                -- `Err(FsmExceededTransitionLimitError …)` (the value of the function)
deriving DecidableEq, Repr

/-! ### meaning -/

/-- the leaf operations -/
structure Ops (Pat Trans Cond St Env Val Err : Type) where
  /-- `clear_pattern_bindings(pattern, &mut env)` -/
  clear : Pat → Env → Env
  /-- `pattern_matches_value(pattern, state, &mut env, p)`: whether it matched and what became of `env` -/
  matchPat : Pat → St → Env → Except Err (Bool × Env)
  /-- `pattern_to_value(&guard.condition, &env, p)` seen through `Value::Bool(x)`: `none` when the value is not a bool -/
  evalCond : Cond → Env → Except Err (Option Bool)
  /-- `apply_transitions(transitions, state, &mut env, p)`: the output if any, the new `*state`, the new `env` -/
  apply : Trans → St → Env → Except Err (Option Val × St × Env)
  guardKind : Err
  limit : Err

/-- `FsmArm`; a guard is its condition (`none`: `Pattern::Wildcard`) and its transitions -/
inductive SArm (Pat Trans Cond : Type) where
  | comment
  | transition (p : Pat) (t : Trans)
  | guard (p : Pat) (gs : List (Option Cond × Trans))

/-- what the function returns: the output of an arm, or the state it halted in -/
inductive Ret (Val St : Type) where
  | value (v : Val)
  | state (s : St)

structure Store (Pat Trans Cond St Env Val : Type) where
  state : St
  callEnv : Env
  armEnv : Option Env := none
  transitioned : Option Bool := none
  matched : Option Bool := none
  passes : Option Bool := none
  out : Option (Option Val) := none
  pat : Option Pat := none
  trans : Option Trans := none
  guards : Option (List (Option Cond × Trans)) := none
  guard : Option (Option Cond × Trans) := none

/-- how a statement ends: normally, by `break`, by `continue`, by `return`, by `?` / `return Err`, or it reads a
    name that is not bound (does not happen for a skeleton read from code that compiles) -/
inductive Out (σ Val St Err : Type) where
  | next (s : σ)
  | brk (s : σ)
  | cont (s : σ)
  | ret (r : Ret Val St)
  | fail (e : Err)
  | unbound

/-- a `for` loop over a list: `continue` goes on, `break` leaves the loop, `return` and errors leave the function -/
def iter {α σ Val St Err : Type} (f : α → σ → Out σ Val St Err) : List α → σ → Out σ Val St Err
  | [], s => .next s
  | a :: as, s =>
    match f a s with
    | .next s' => iter f as s'
    | .cont s' => iter f as s'
    | .brk s' => .next s'
    | .ret r => .ret r
    | .fail e => .fail e
    | .unbound => .unbound

section
variable {Pat Trans Cond St Env Val Err : Type}

abbrev St' (Pat Trans Cond St Env Val : Type) := Store Pat Trans Cond St Env Val

def Store.env (s : Store Pat Trans Cond St Env Val) : EnvRef → Option Env
  | .call => some s.callEnv
  | .arm => s.armEnv

def Store.setEnv (s : Store Pat Trans Cond St Env Val) : EnvRef → Env → Store Pat Trans Cond St Env Val
  | .call, e => { s with callEnv := e }
  | .arm, e => { s with armEnv := some e }

def Store.getB (s : Store Pat Trans Cond St Env Val) : BVar → Option Bool
  | .transitioned => s.transitioned
  | .matched => s.matched
  | .passes => s.passes

def Store.setB (s : Store Pat Trans Cond St Env Val) : BVar → Bool → Store Pat Trans Cond St Env Val
  | .transitioned, b => { s with transitioned := some b }
  | .matched, b => { s with matched := some b }
  | .passes, b => { s with passes := some b }

def Store.evalB (s : Store Pat Trans Cond St Env Val) : BExp → Option Bool
  | .var v => s.getB v
  | .not e => (s.evalB e).map (!·)

def Store.transOf (s : Store Pat Trans Cond St Env Val) : TransRef → Option Trans
  | .arm => s.trans
  | .guard => s.guard.map (·.2)

def stepCount (maxSteps : Nat) : Range → Nat
  | .exclusive => maxSteps
  | .inclusive => maxSteps + 1

/-- `match arm { Comment(_) => c, Transition(pattern, transitions) => t, Guard(pattern, guards) => g }`: each arm of the
    `match` binds its names, and only those -/
def armDispatch {R : Type} (c t g : Store Pat Trans Cond St Env Val → R) : SArm Pat Trans Cond → Store Pat Trans Cond St Env Val → R
  | .comment, s => c { s with pat := none, trans := none, guards := none }
  | .transition p ts, s => t { s with pat := some p, trans := some ts, guards := none }
  | .guard p gs, s => g { s with pat := some p, trans := none, guards := some gs }

def exec (ops : Ops Pat Trans Cond St Env Val Err) (maxSteps : Nat) (arms : List (SArm Pat Trans Cond)) :
    Stmt → Store Pat Trans Cond St Env Val → Out (Store Pat Trans Cond St Env Val) Val St Err
  | .skip, s => .next s
  | .seq a b, s =>
    (match exec ops maxSteps arms a s with
     | .next s' => exec ops maxSteps arms b s'
     | o => o)
  | .setB v b, s => .next (s.setB v b)
  | .clone src, s =>
    (match s.env src with
     | some e => .next { s with armEnv := some e }
     | none => .unbound)
  | .assign dst src, s =>
    (match s.env src with
     | some e => .next (s.setEnv dst e)
     | none => .unbound)
  | .clear r, s =>
    (match s.pat, s.env r with
     | some p, some e => .next (s.setEnv r (ops.clear p e))
     | _, _ => .unbound)
  | .matchPat r, s =>
    (match s.pat, s.env r with
     | some p, some e =>
       (match ops.matchPat p s.state e with
        | .error err => .fail err
        | .ok (b, e') => .next ((s.setEnv r e').setB .matched b))
     | _, _ => .unbound)
  | .guardCond w r nb, s =>
    (match s.guard with
     | none => .unbound
     | some (none, _) => .next (s.setB .passes w)
     | some (some c, _) =>
       (match s.env r with
        | none => .unbound
        | some e =>
          (match ops.evalCond c e with
           | .error err => .fail err
           | .ok (some b) => .next (s.setB .passes b)
           | .ok none =>
             (match nb with
              | .error => .fail ops.guardKind
              | .const b => .next (s.setB .passes b)))))
  | .apply t r, s =>
    (match s.transOf t, s.env r with
     | some ts, some e =>
       (match ops.apply ts s.state e with
        | .error err => .fail err
        | .ok (o, st', e') => .next { (s.setEnv r e') with state := st', out := some o })
     | _, _ => .unbound)
  | .ite c a b, s =>
    (match s.evalB c with
     | none => .unbound
     | some true => exec ops maxSteps arms a s
     | some false => exec ops maxSteps arms b s)
  | .returnIfOut, s =>
    (match s.out with
     | none => .unbound
     | some (some v) => .ret (.value v)
     | some none => .next s)
  | .returnState, s => .ret (.state s.state)
  | .brk, s => .brk s
  | .cont, s => .cont s
  | .forGuards body, s =>
    (match s.guards with
     | none => .unbound
     | some gs => iter (fun g s' => exec ops maxSteps arms body { s' with guard := some g }) gs s)
  | .forArms c t g, s =>
    iter (armDispatch (exec ops maxSteps arms c) (exec ops maxSteps arms t) (exec ops maxSteps arms g)) arms s
  | .forSteps r body, s =>
    iter (fun (_ : Unit) s' => exec ops maxSteps arms body s') (List.replicate (stepCount maxSteps r) ()) s
  | .failLimit, _ => .fail ops.limit

/-- what the caller sees -/
def Out.result {σ : Type} : Out σ Val St Err → Option (Except Err (Ret Val St))
  | .ret r => some (.ok r)
  | .fail e => some (.error e)
  | _ => none

/-- `execute_fsm_pipe_impl(fsm, state, call_env, p)` read as the skeleton `prog`: `none` when the skeleton falls off
    its end or reads an unbound name -/
def runSkeleton (ops : Ops Pat Trans Cond St Env Val Err) (prog : Stmt) (maxSteps : Nat)
    (arms : List (SArm Pat Trans Cond)) (s : St) (env : Env) : Option (Except Err (Ret Val St)) :=
  (exec ops maxSteps arms prog ({ state := s, callEnv := env } : Store Pat Trans Cond St Env Val)).result

end

/-! ### the skeleton the model stands for -/

open Stmt in
/-- clone, then clear the clone, then match against the clone, then `rest` (a block is a right-nested `seq`) -/
def withPrologue (rest : Stmt) : Stmt := seq (clone .call) (seq (clear .arm) (seq (matchPat .arm) rest))

open Stmt in
/-- apply, return the output if there is one, else note the transition and leave the loop; nothing is written back -/
def taken (t : TransRef) : Stmt := seq (apply t .arm) (seq returnIfOut (seq (setB .transitioned true) brk))

open Stmt in
def guardBody : Stmt :=
  seq (guardCond true .arm .error) (seq (ite (.not (.var .passes)) cont skip) (taken .guard))

open Stmt in
def transitionArm : Stmt := withPrologue (ite (.var .matched) (taken .arm) skip)

open Stmt in
def guardArm : Stmt :=
  withPrologue (seq (ite (.not (.var .matched)) cont skip) (seq (forGuards guardBody) (ite (.var .transitioned) brk skip)))

open Stmt in
def stepBody : Stmt :=
  seq (setB .transitioned false) (seq (forArms cont transitionArm guardArm) (ite (.not (.var .transitioned)) returnState skip))

open Stmt in
def expectedRunner : Stmt := seq (forSteps .exclusive stepBody) failLimit

/-! ### the validation pass -/

inductive ArmKind where
  | comment | transition | guard
deriving DecidableEq, Repr

/-- `for x in xs` / `for x in xs.iter().take(1)`, `if let Some(x) = xs.first()` -/
inductive Quant where
  | all | first
deriving DecidableEq, Repr

inductive TKind where
  | next | async | output | statement | codeBlock
deriving DecidableEq, Repr

inductive VCheck where
  /-- `if let Some(spec) = spec { for declared in &spec.states { if !state_names.contains(name) { return Err } } }` -/
  | declared (q : Quant)
  /-- the start pattern has a state name and `state_names` contains it, else `Err` -/
  | start
  /-- `for arm in &fsm.arms`: the transitions of a `Transition` arm (`direct`), of the guards (`guards`) of a `Guard`
      arm, of each such guard its transitions (`guardTrans`), each through `validate_transition_target_state` -/
  | targets (direct guards guardTrans : Quant)
deriving DecidableEq, Repr

structure Validator where
  /-- the arm kinds whose pattern's state name is collected into `state_names` -/
  namesFrom : List ArmKind
  /-- `if state_names.is_empty() { return Ok(()); }` right after -/
  emptyOk : Bool
  /-- the checks, in source order; each returns the undefined-state error when it fails -/
  checks : List VCheck
  /-- `validate_transition_target_state`: the transition kinds whose pattern's state name must be in `state_names` -/
  targetKinds : List TKind
deriving DecidableEq, Repr

/-- a transition as the validator sees it: its kind and the state name of its pattern (`state_name_from_pattern`) -/
abbrev VT := TKind × Option String

inductive VArm where
  | comment
  | transition (name : Option String) (ts : List VT)
  | guard (name : Option String) (gs : List (List VT))

def pick {α : Type} : Quant → List α → List α
  | .all, l => l
  | .first, l => l.take 1

/-- the state name an arm contributes to `state_names` -/
def VArm.stateName (v : Validator) : VArm → Option String
  | .comment => none
  | .transition n _ => if v.namesFrom.contains .transition then n else none
  | .guard n _ => if v.namesFrom.contains .guard then n else none

def stateNames (v : Validator) (arms : List VArm) : List String := arms.filterMap (VArm.stateName v)

def targetNames (v : Validator) (ts : List VT) : List String :=
  ts.filterMap (fun t => if v.targetKinds.contains t.1 then t.2 else none)

/-- the targets of one arm that are looked at are all in `names` -/
def VArm.targetsOk (v : Validator) (names : List String) (d g gt : Quant) : VArm → Bool
  | .comment => true
  | .transition _ ts => (targetNames v (pick d ts)).all names.contains
  | .guard _ gs => (pick g gs).all (fun ts => (targetNames v (pick gt ts)).all names.contains)

def checkOk (v : Validator) (names : List String) (arms : List VArm) (declared : Option (List String))
    (start : Option String) : VCheck → Bool
  | .declared q => (match declared with | none => true | some ds => (pick q ds).all names.contains)
  | .start => (match start with | none => false | some s => names.contains s)
  | .targets d g gt => arms.all (VArm.targetsOk v names d g gt)

/-- `validate_fsm_state_coverage(fsm, spec, fsm_pipe)`; every failing check returns the same kind of error, so the
    order of the checks does not show in the result -/
def runValidator {Err : Type} (v : Validator) (undefinedState : Err) (arms : List VArm) (declared : Option (List String))
    (start : Option String) : Except Err Unit :=
  let names := stateNames v arms
  if v.emptyOk && names.isEmpty then .ok () else
  if v.checks.all (checkOk v names arms declared start) then .ok () else .error undefinedState

def expectedValidator : Validator :=
  { namesFrom := [.guard, .transition], emptyOk := true,
    checks := [.declared .all, .start, .targets .all .all .all],
    targetKinds := [.next, .async] }

/-! ### the model's leaves -/

open MechVerif.Arms MechVerif.Fsm

abbrev MPat := String × List P

/-- `pattern_matches_value` on a state pattern `:Name(p1, …)`; on failure the environment is handed back as it came
    (whatever the real matcher leaves in it is dropped with the clone) -/
def matchOp (p : MPat) (s : StateV) (env : Env) : Except FErr (Bool × Env) :=
  match (if p.1 = s.name ∧ p.2.length = s.payload.length then matchPs p.2 s.payload env else none) with
  | some e => .ok (true, e)
  | none => .ok (false, env)

def condOp (c : E) (env : Env) : Except FErr (Option Bool) :=
  match evalS env c with
  | .error e => .error e
  | .ok (.bool b) => .ok (some b)
  | .ok _ => .ok none

def applyOp (t : Target) (s : StateV) (env : Env) : Except FErr (Option S × StateV × Env) :=
  match applyTarget env t with
  | .error e => .error e
  | .ok (.moved s' env') => .ok (none, s', env')
  | .ok (.out v env') => .ok (some v, s, env')
  | .ok .stuck => .ok (none, s, env)

def modelOps : Ops MPat Target E StateV Env S FErr :=
  { clear := fun p env => clearVars p.2 env, matchPat := matchOp, evalCond := condOp, apply := applyOp,
    guardKind := .guardKind, limit := .limit }

abbrev MArm := SArm MPat Target E

/-- an arm of the model as the runner's `FsmArm` -/
def sarmOf (a : Fsm.Arm) : MArm :=
  match a.body with
  | .direct t => .transition (a.name, a.pats) t
  | .guarded gs => .guard (a.name, a.pats) (gs.map (fun g => (g.cond, g.target)))

def toGuard (g : Option E × Target) : Guard := ⟨g.1, g.2⟩

/-- and back; comments are not arms of the model -/
def armOf : MArm → Option Fsm.Arm
  | .comment => none
  | .transition p t => some ⟨p.1, p.2, .direct t⟩
  | .guard p gs => some ⟨p.1, p.2, .guarded (gs.map toGuard)⟩

def ofResult : Result → Ret S StateV
  | .value v => .value v
  | .halted s => .state s

def vtOf : Target → VT
  | .next n _ => (.next, some n)
  | .output _ => (.output, none)

def varmOf (a : Fsm.Arm) : VArm :=
  match a.body with
  | .direct t => .transition (some a.name) [vtOf t]
  | .guarded gs => .guard (some a.name) (gs.map (fun g => [vtOf g.target]))

end MechVerif.FsmIR
