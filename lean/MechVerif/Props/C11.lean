/-
C11 — Matrix construction by concatenation places every block where it is written.
Model: `Model/Concat.lean` (row-wise horzcat then vertcat over column-major data),
spec: `Spec/Concat.lean` (`litGet`: the element of the covering block).
-/
import MechVerif.Lemmas.Concat
import MechVerif.Lemmas.ConcatKernels
namespace MechVerif.Concat
open MechVerif.Num MechVerif.Mat

variable {α : Type}

/-- the row matrices produced by `rowsM` are the side-by-side arrangements of the rows -/
def RowsOk : List (List (Mat α)) → List (Mat α) → Prop
  | [], [] => True
  | row :: rows, rm :: rms =>
    (Mat.wf' rm ∧ rm.rows = rowHeight row ∧ rm.cols = sumCols row ∧ (∀ b ∈ row, b.rows = rowHeight row) ∧
      ∀ i j, i < rm.rows → j < rm.cols → rm.get? i j = hGet row i j) ∧ RowsOk rows rms
  | _, _ => False

theorem rowsM_spec : ∀ (rows : List (List (Mat α))) (rms : List (Mat α)),
    (∀ row ∈ rows, ∀ b ∈ row, Mat.wf' b) → rowsM rows = .ok rms → RowsOk rows rms := by
  intro rows
  induction rows with
  | nil => intro rms _ h; simp only [rowsM, Except.ok.injEq] at h; subst h; trivial
  | cons row rows ih =>
    intro rms hwf h
    cases row with
    | nil => simp [rowsM] at h
    | cons b bs =>
      simp only [rowsM] at h
      cases h1 : hcatAll b bs with
      | error e => simp [h1] at h
      | ok rm =>
        simp only [h1] at h
        cases h2 : rowsM rows with
        | error e => simp [h2] at h
        | ok rest =>
          simp only [h2, Except.ok.injEq] at h; subst h
          have hb := hwf (b :: bs) List.mem_cons_self
          obtain ⟨w, hr, hc, hall, hg⟩ := hcatAll_spec bs b rm (hb b List.mem_cons_self)
            (fun x hx => hb x (List.mem_cons_of_mem _ hx)) h1
          refine ⟨⟨w, hr, hc, ?_, hg⟩, ih rest (fun r hr' => hwf r (List.mem_cons_of_mem _ hr')) h2⟩
          intro x hx
          cases List.mem_cons.mp hx with
          | inl e => subst e; rfl
          | inr hm => exact hall x hm

theorem vGet_litGet : ∀ (rows : List (List (Mat α))) (rms : List (Mat α)) (C : Nat),
    RowsOk rows rms → (∀ rm ∈ rms, rm.cols = C) →
    ∀ i j, j < C → i < sumRows rms → vGet rms i j = litGet rows i j := by
  intro rows
  induction rows with
  | nil =>
    intro rms C h _ i j _ hi
    cases rms with
    | nil => simp [sumRows] at hi
    | cons _ _ => exact absurd h (by simp [RowsOk])
  | cons row rows ih =>
    intro rms C h hC i j hj hi
    cases rms with
    | nil => exact absurd h (by simp [RowsOk])
    | cons rm rms =>
      obtain ⟨⟨_, hr, _, _, hg⟩, hrest⟩ := h
      simp only [vGet, litGet, ← hr]
      by_cases hlt : i < rm.rows
      · simp only [hlt, if_true]
        exact hg i j hlt (by rw [hC rm List.mem_cons_self]; exact hj)
      · simp only [hlt, if_false]
        apply ih rms C hrest (fun x hx => hC x (List.mem_cons_of_mem _ hx)) _ _ hj
        simp only [sumRows, List.map_cons, List.sum_cons] at hi ⊢
        omega

/-- A matrix literal with block entries evaluates to the block matrix: its height is the
    sum of the row heights, and element (i, j) is the element of the block that covers
    (i, j) — for every number of rows and blocks and all block shapes that are accepted. -/
theorem C11_matrix_literal_eq_block (rows : List (List (Mat α))) (r : Mat α)
    (hwf : ∀ row ∈ rows, ∀ b ∈ row, Mat.wf' b) (h : matrixLit rows = .ok r) :
    Mat.wf' r ∧
    ∀ i j, i < r.rows → j < r.cols → r.get? i j = litGet rows i j := by
  unfold matrixLit at h
  cases h1 : rowsM rows with
  | error e => simp [h1] at h
  | ok rms =>
    simp only [h1] at h
    cases rms with
    | nil => simp at h
    | cons rm rest =>
      simp only at h
      have hok := rowsM_spec rows (rm :: rest) hwf h1
      have hrm : Mat.wf' rm := by
        cases rows with
        | nil => exact absurd hok (by simp [RowsOk])
        | cons row rows' => exact hok.1.1
      have hrest : ∀ b ∈ rest, Mat.wf' b := by
        have : ∀ (rows : List (List (Mat α))) (rms : List (Mat α)), RowsOk rows rms → ∀ b ∈ rms, Mat.wf' b := by
          intro rows
          induction rows with
          | nil => intro rms h b hb; cases rms with
            | nil => cases hb
            | cons _ _ => exact absurd h (by simp [RowsOk])
          | cons row rows ih => intro rms h b hb; cases rms with
            | nil => cases hb
            | cons x xs =>
              cases List.mem_cons.mp hb with
              | inl e => subst e; exact h.1.1
              | inr hm => exact ih xs h.2 b hm
        intro b hb
        exact this rows (rm :: rest) hok b (List.mem_cons_of_mem _ hb)
      obtain ⟨w, hc, hrw, hall, hg⟩ := vcatAll_spec rest rm r hrm hrest h
      refine ⟨w, ?_⟩
      intro i j hi hj
      rw [hg i j hi hj]
      apply vGet_litGet rows (rm :: rest) rm.cols hok
      · intro x hx
        cases List.mem_cons.mp hx with
        | inl e => subst e; rfl
        | inr hm => exact hall x hm
      · rw [← hc]; exact hj
      · rw [← hrw]; exact hi

/-- Blocks of different heights within a row are rejected. -/
theorem C11_rejects_uneven_row (b : Mat α) (bs : List (Mat α)) (rest : List (List (Mat α)))
    (h : ∃ x ∈ bs, x.rows ≠ b.rows) : ∃ e, matrixLit ((b :: bs) :: rest) = .error e := by
  obtain ⟨e, he⟩ := hcatAll_rejects bs b h
  exact ⟨e, by simp [matrixLit, rowsM, he]⟩

/-- Rows of different widths are rejected. -/
theorem C11_rejects_uneven_widths (rows : List (List (Mat α))) (rm : Mat α) (rms : List (Mat α))
    (h1 : rowsM rows = .ok (rm :: rms)) (h : ∃ x ∈ rms, x.cols ≠ rm.cols) :
    ∃ e, matrixLit rows = .error e := by
  obtain ⟨e, he⟩ := vcatAll_rejects rms rm h
  exact ⟨e, by simp [matrixLit, h1, he]⟩

/-- Side by side / stacked: the two kernels on their own. -/
theorem C11_horzcat_spec (a b r : Mat α) (ha : Mat.wf' a) (h : hcat2 a b = .ok r) (i j : Nat)
    (hi : i < r.rows) (hj : j < r.cols) :
    r.get? i j = if j < a.cols then a.get? i j else b.get? i (j - a.cols) :=
  (hcat2_get a b r ha h i j hi hj).2.2.2

theorem C11_vertcat_spec (a b r : Mat α) (ha : Mat.wf' a) (hb : Mat.wf' b) (h : vcat2 a b = .ok r) (i j : Nat)
    (hi : i < r.rows) (hj : j < r.cols) :
    r.get? i j = if i < a.rows then a.get? i j else b.get? (i - a.rows) j :=
  (vcat2_get a b r ha hb h i j hi hj).2.2.2

/-! ### the kernels as written

`Gen/ConcatKernels.lean` is regenerated from the source on every run (`tools/extract_concat.py`): the four copy
routines of `copy_mat!` as Lean definitions, and the dispatch / `solve` table of horzcat.rs and vertcat.rs for the
default features.  The theorems below are about those generated objects. -/
section asWritten
open MechVerif.ConcatIR MechVerif.Gen.ConcatKernels

/-- `copy_into`, `copy_into_v`, `copy_into_r` as written: the elements of the source, in storage order, over the
    positions `offset, offset+1, …` of the destination, the number of elements returned; an index panic exactly when
    the source does not fit — for every source, destination and offset. -/
theorem C11_copy_into_as_written (src dst : Mat α) (off : Nat) (hs : Mat.wf' src) :
    copy_into src dst off = copyLin src dst off ∧ copy_into_v src dst off = copyLin src dst off ∧
    copy_into_r src dst off = copyLin src dst off :=
  ⟨copy_into_eq src dst off hs, copy_into_v_eq src dst off hs, copy_into_r_eq src dst off hs⟩

/-- `copy_into_row_major` as written — the flat loop whose position advances by
    `((ix + 1) % src_rows == 0) as usize * stride + 1` with `stride = dest_rows - src_rows` — is the column-by-column
    copy: column `c` of the source over the positions `offset + c·dest_rows, …`; the height of the source returned. -/
theorem C11_copy_into_row_major_as_written (src dst : Mat α) (off : Nat) (hs : Mat.wf' src) :
    copy_into_row_major src dst off = copyRowMajor src dst off :=
  copy_into_row_major_eq src dst off hs

/-- what the column-by-column copy does to the elements: the source sits as a block with its top left corner in
    row `o` of the first column, everything else is untouched. -/
theorem C11_copy_into_row_major_places_block (src dst : Mat α) (o : Nat) (hs : Mat.wf' src) (hd : Mat.wf' dst)
    (ho : o + src.rows ≤ dst.rows) (hC : src.cols ≤ dst.cols) :
    ∃ out, copy_into_row_major src dst o = .ok (out, src.rows) ∧ out.rows = dst.rows ∧ out.cols = dst.cols ∧
      ∀ i j, i < dst.rows → j < dst.cols →
        out.get? i j = if o ≤ i ∧ i < o + src.rows ∧ j < src.cols then src.get? (i - o) j else dst.get? i j := by
  obtain ⟨out, h, hr, hc, _, hg⟩ := copyRowMajor_spec src dst o hs hd ho hC
  exact ⟨out, by rw [copy_into_row_major_eq src dst o hs]; exact h, hr, hc, hg⟩

/-- `impl_horzcat_arms!` and the `solve` of the struct it picks, as written, run with the copy routines as written:
    for any number of blocks (scalars, vectors, matrices) of one height the result is the model's `hcatAll`. -/
theorem C11_horzcat_as_written (d : α) (a : Operand α) (as : List (Operand α))
    (hwf : ∀ x ∈ a :: as, Mat.wf' (blockOf x)) (hrows : ∀ x ∈ as, (blockOf x).rows = (blockOf a).rows) :
    evalCat impl horzcat solves d (a :: as) = hcatAll (blockOf a) (as.map blockOf) := by
  rw [C11_concat_table_as_written.2.2.1, C11_concat_table_as_written.2.1]
  exact horzcat_as_written impl (fun r m dst off hm => gen_impl_eq r m dst off hm) d a as hwf hrows

/-- `impl_vertcat_arms!` and `solve`, as written: for any number of matrix blocks of one width the result is the
    model's `vcatAll`. -/
theorem C11_vertcat_as_written (d : α) (a : Mat α) (as : List (Mat α))
    (hwf : ∀ e ∈ a :: as, Mat.wf' e) (hcols : ∀ e ∈ as, e.cols = a.cols) :
    evalCat impl vertcat solves d ((a :: as).map .mat) = vcatAll a as := by
  rw [C11_concat_table_as_written.2.2.2, C11_concat_table_as_written.2.1]
  exact vertcat_as_written impl (fun r m dst off hm => gen_impl_eq r m dst off hm) d a as hwf hcols

/-- so the characterisation of the two kernels holds for the code as written: side by side … -/
theorem C11_horzcat_spec_as_written (d : α) (a : Operand α) (as : List (Operand α)) (r : Mat α)
    (hwf : ∀ x ∈ a :: as, Mat.wf' (blockOf x)) (hrows : ∀ x ∈ as, (blockOf x).rows = (blockOf a).rows)
    (h : evalCat impl horzcat solves d (a :: as) = .ok r) :
    Mat.wf' r ∧ r.rows = (blockOf a).rows ∧ r.cols = sumCols ((a :: as).map blockOf) ∧
    ∀ i j, i < r.rows → j < r.cols → r.get? i j = hGet ((a :: as).map blockOf) i j := by
  rw [C11_horzcat_as_written d a as hwf hrows] at h
  obtain ⟨w, hr, hc, _, hg⟩ := hcatAll_spec (as.map blockOf) (blockOf a) r (hwf a List.mem_cons_self)
    (fun b hb => by obtain ⟨x, hx, rfl⟩ := List.mem_map.mp hb; exact hwf x (List.mem_cons_of_mem _ hx)) h
  exact ⟨w, hr, hc, hg⟩

/-- … and stacked. -/
theorem C11_vertcat_spec_as_written (d : α) (a : Mat α) (as : List (Mat α)) (r : Mat α)
    (hwf : ∀ e ∈ a :: as, Mat.wf' e) (hcols : ∀ e ∈ as, e.cols = a.cols)
    (h : evalCat impl vertcat solves d ((a :: as).map .mat) = .ok r) :
    Mat.wf' r ∧ r.cols = a.cols ∧ r.rows = sumRows (a :: as) ∧
    ∀ i j, i < r.rows → j < r.cols → r.get? i j = vGet (a :: as) i j := by
  rw [C11_vertcat_as_written d a as hwf hcols] at h
  obtain ⟨w, hc, hr, _, hg⟩ := vcatAll_spec as a r (hwf a List.mem_cons_self)
    (fun b hb => hwf b (List.mem_cons_of_mem _ hb)) h
  exact ⟨w, hc, hr, hg⟩

/-- a literal with block entries, evaluated the way `matrix()` / `matrix_row()` do it (heights checked, `MatrixHorzCat`
    per row, widths checked, a single row returned as it is, `MatrixVertCat` otherwise) with the dispatch, `solve` and
    copy routines as written, is the model's `matrixLit` — for every number of rows and blocks, errors included. -/
theorem C11_matrix_literal_as_written (d : α) (rows : List (List (Operand α)))
    (hwf : ∀ row ∈ rows, ∀ x ∈ row, Mat.wf' (blockOf x)) :
    evalLit impl horzcat vertcat solves d rows = matrixLit (rows.map (·.map blockOf)) := by
  rw [C11_concat_table_as_written.2.2.1, C11_concat_table_as_written.2.2.2, C11_concat_table_as_written.2.1]
  exact evalLit_eq impl (fun r m dst off hm => gen_impl_eq r m dst off hm) d rows hwf

/-- hence the block-matrix theorem holds for the kernels as written. -/
theorem C11_matrix_literal_eq_block_as_written (d : α) (rows : List (List (Operand α))) (r : Mat α)
    (hwf : ∀ row ∈ rows, ∀ x ∈ row, Mat.wf' (blockOf x))
    (h : evalLit impl horzcat vertcat solves d rows = .ok r) :
    Mat.wf' r ∧ ∀ i j, i < r.rows → j < r.cols → r.get? i j = litGet (rows.map (·.map blockOf)) i j := by
  rw [C11_matrix_literal_as_written d rows hwf] at h
  exact C11_matrix_literal_eq_block _ r (by
    intro row hrow b hb
    obtain ⟨r', hr', rfl⟩ := List.mem_map.mp hrow
    obtain ⟨x, hx, rfl⟩ := List.mem_map.mp hb
    exact hwf r' hr' x hx) h

end asWritten

/-! ### non-vacuity -/
example : matrixLit [[(⟨2, 2, [1, 3, 2, 4]⟩ : Mat Nat), ⟨2, 1, [5, 6]⟩], [⟨1, 3, [7, 8, 9]⟩]]
    = .ok ⟨3, 3, [1, 3, 7, 2, 4, 8, 5, 6, 9]⟩ := by decide
example : matrixLit [[(⟨2, 2, [1, 3, 2, 4]⟩ : Mat Nat), ⟨1, 2, [5, 6]⟩]] = .error .dim := by decide
example : litGet [[(⟨2, 2, [1, 3, 2, 4]⟩ : Mat Nat), ⟨2, 1, [5, 6]⟩], [⟨1, 3, [7, 8, 9]⟩]] 2 1 = some 8 := by decide
-- the kernels as written, run: a 2×2 block next to a 2×1 block; a row vector under a 2×3 matrix; a scalar between vectors
open MechVerif.ConcatIR MechVerif.Gen.ConcatKernels in
example : evalCat impl horzcat solves 0 [.mat (⟨2, 2, [1, 3, 2, 4]⟩ : Mat Nat), .mat ⟨2, 1, [5, 6]⟩]
    = .ok ⟨2, 3, [1, 3, 2, 4, 5, 6]⟩ := by decide
open MechVerif.ConcatIR MechVerif.Gen.ConcatKernels in
example : evalCat impl vertcat solves 0 [.mat (⟨2, 3, [1, 3, 2, 4, 5, 6]⟩ : Mat Nat), .mat ⟨1, 3, [7, 8, 9]⟩]
    = .ok ⟨3, 3, [1, 3, 7, 2, 4, 8, 5, 6, 9]⟩ := by decide
open MechVerif.ConcatIR MechVerif.Gen.ConcatKernels in
example : evalCat impl horzcat solves 0 [.mat (⟨1, 2, [1, 2]⟩ : Mat Nat), .scalar 3, .mat ⟨1, 1, [4]⟩]
    = .ok ⟨1, 4, [1, 2, 3, 4]⟩ := by decide
open MechVerif.ConcatIR MechVerif.Gen.ConcatKernels in
example : evalLit impl horzcat vertcat solves 0
    [[.mat (⟨2, 2, [1, 3, 2, 4]⟩ : Mat Nat), .mat ⟨2, 1, [5, 6]⟩], [.scalar 7, .mat ⟨1, 2, [8, 9]⟩]]
    = .ok ⟨3, 3, [1, 3, 7, 2, 4, 8, 5, 6, 9]⟩ := by decide
open MechVerif.ConcatIR MechVerif.Gen.ConcatKernels in
example : copy_into_row_major (⟨1, 2, [7, 8]⟩ : Mat Nat) ⟨2, 2, [1, 0, 2, 0]⟩ 1 = .ok (⟨2, 2, [1, 7, 2, 8]⟩, 1) := by decide
open MechVerif.ConcatIR MechVerif.Gen.ConcatKernels in
example : copy_into_row_major (⟨3, 1, [7, 8, 9]⟩ : Mat Nat) ⟨2, 2, [1, 0, 2, 0]⟩ 0 = .error .overflow := by decide

end MechVerif.Concat
