import MechVerif.Gen.ConcatKernels
import MechVerif.Lemmas.Concat
namespace MechVerif.ConcatIR
open MechVerif.Num MechVerif.Mat MechVerif.Concat

variable {α : Type}

theorem blit_nil (d : List α) (p : Nat) : blit [] d p = .ok d := by simp [blit]

theorem blit_cons (x : α) (xs d : List α) (p : Nat) :
    blit (x :: xs) d p = if p < d.length then blit xs (d.set p x) (p + 1) else .error .index := by
  by_cases hp : p < d.length
  · simp only [hp, if_true]
    cases xs with
    | nil =>
      have : p + 1 ≤ d.length := hp
      simp [blit, this, List.set_eq_take_append_cons_drop, hp]
    | cons y ys =>
      unfold blit
      simp only [List.length_cons, List.length_set]
      by_cases hr : p + (ys.length + 1 + 1) ≤ d.length
      · have hr' : p + 1 + (ys.length + 1) ≤ d.length := by omega
        simp only [hr, hr', if_true, Nat.add_eq_zero_iff, Nat.succ_ne_zero, and_false, if_false, Except.ok.injEq]
        apply List.ext_getElem?
        intro k
        simp only [List.getElem?_append, List.length_take, List.length_append, List.length_cons, List.getElem?_take,
          List.getElem?_drop, List.getElem?_set, List.length_set]
        grind
      · have hr' : ¬ p + 1 + (ys.length + 1) ≤ d.length := by omega
        simp [hr, hr']
  · have : ¬ p + (xs.length + 1) ≤ d.length := by omega
    simp [blit, hp, this]

end MechVerif.ConcatIR
