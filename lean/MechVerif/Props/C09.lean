/-
C09 — The parser is total.

What is proved is the part of the parser that is bookkeeping and control rather than grammar:
the cursor and its (row, col) location under every consume operation, the end-of-line
skipping used by error recovery, the decision `Ok(tree)` / `Err(report)` at the end of
`parser::parse`, and the progress argument of the recovery loop.  The nom grammar itself is
not modelled as such: for it the check runs the real parser (no panic, no hang, reported ranges
inside the input, same outcome twice) — that part is search.  For the statement / expression
sublanguage of Model/Syntax.lean the token-level parser is a total function by construction, and
what it accepts it accounts for completely.
-/
import MechVerif.Gen.ParseWrap
import MechVerif.Model.Cursor
import MechVerif.Lemmas.Syntax
namespace MechVerif.Cursor

/-- the cursor states the parser can be in: reached from the start by consuming graphemes -/
inductive Reach (gs : List G) : PS → Prop where
  | start : Reach gs Cursor.start
  | step {p q : PS} : Reach gs p → consumeOne gs p = some q → Reach gs q

theorem consumeOne_cursor (gs : List G) (p q : PS) (h : consumeOne gs p = some q) :
    q.cursor = p.cursor + 1 ∧ p.cursor < gs.length := by
  simp only [consumeOne] at h
  cases hg : gs[p.cursor]? with
  | none => rw [hg] at h; cases h
  | some g =>
    rw [hg] at h
    have hlt : p.cursor < gs.length := by
      rcases Nat.lt_or_ge p.cursor gs.length with h1 | h1
      · exact h1
      · rw [List.getElem?_eq_none h1] at hg; cases hg
    simp only at h
    split at h
    · split at h <;> (simp only [Option.some.injEq] at h; subst h; exact ⟨rfl, hlt⟩)
    · simp only [Option.some.injEq] at h; subst h; exact ⟨rfl, hlt⟩

/-- The location the parser carries is a function of the text and the position alone: whatever
    sequence of consume operations led to a position, (row, col) is `locOf` of that position. -/
theorem C09_location_is_function_of_position (gs : List G) (p : PS) (h : Reach gs p) :
    p = locOf gs p.cursor ∧ p.cursor ≤ gs.length := by
  induction h with
  | start => exact ⟨rfl, Nat.zero_le _⟩
  | step hp hq ih =>
    obtain ⟨hc, hlt⟩ := consumeOne_cursor gs _ _ hq
    refine ⟨?_, by omega⟩
    rw [hc]
    simp only [locOf]
    rw [← ih.1, hq]
    rfl

theorem locOf_cursor (gs : List G) : ∀ c, (locOf gs c).cursor = min c gs.length := by
  intro c
  induction c with
  | zero => simp [locOf, Cursor.start]
  | succ c ih =>
    simp only [locOf]
    cases hq : consumeOne gs (locOf gs c) with
    | none =>
      simp only [Option.getD_none]
      -- nothing left to consume: the cursor is at the end
      have hend : gs.length ≤ (locOf gs c).cursor := by
        simp only [consumeOne] at hq
        cases hg : gs[(locOf gs c).cursor]? with
        | none =>
          rcases Nat.lt_or_ge (locOf gs c).cursor gs.length with h1 | h1
          · rw [List.getElem?_eq_getElem h1] at hg; cases hg
          · exact h1
        | some g => rw [hg] at hq; simp only at hq; split at hq <;> (try split at hq) <;> cases hq
      rw [ih] at hend ⊢
      omega
    | some q =>
      simp only [Option.getD_some]
      obtain ⟨hc, hlt⟩ := consumeOne_cursor gs _ _ hq
      rw [hc, ih] at *
      omega

/-- rows and columns start at 1 and never exceed what the text before the position allows:
    at most one new row per grapheme consumed, and the column is at most one more than the
    total width of the graphemes before the position -/
theorem C09_location_bounds (gs : List G) : ∀ c,
    1 ≤ (locOf gs c).row ∧ 1 ≤ (locOf gs c).col ∧
    (locOf gs c).row ≤ 1 + c ∧ (locOf gs c).col ≤ 1 + ((gs.take c).map (·.w)).sum := by
  intro c
  induction c with
  | zero => simp [locOf, Cursor.start]
  | succ c ih =>
    obtain ⟨h1, h2, h3, h4⟩ := ih
    have hsum : ((gs.take c).map (·.w)).sum ≤ ((gs.take (c + 1)).map (·.w)).sum := by
      rw [List.take_succ]
      simp [List.map_append, List.sum_append]
    simp only [locOf]
    cases hq : consumeOne gs (locOf gs c) with
    | none => simp only [Option.getD_none]; exact ⟨h1, h2, by omega, by omega⟩
    | some q =>
      simp only [Option.getD_some]
      obtain ⟨hc, hlt⟩ := consumeOne_cursor gs _ _ hq
      have hcur : (locOf gs c).cursor = c := by rw [locOf_cursor] at hlt ⊢; omega
      have hclt : c < gs.length := by rw [hcur] at hlt; exact hlt
      simp only [consumeOne, hcur, List.getElem?_eq_getElem hclt] at hq
      have hsum' : ((gs.take (c + 1)).map (·.w)).sum = ((gs.take c).map (·.w)).sum + gs[c].w := by
        rw [List.take_succ, List.getElem?_eq_getElem hclt]
        simp only [Option.toList_some, List.map_append, List.sum_append, List.map_cons, List.map_nil, List.sum_cons, List.sum_nil, Nat.add_zero]
      by_cases hnl : gs[c].nl = true
      · rw [if_pos hnl] at hq
        split at hq <;> (simp only [Option.some.injEq] at hq; subst hq; simp only; exact ⟨by omega, by omega, by omega, by omega⟩)
      · rw [if_neg hnl] at hq
        simp only [Option.some.injEq] at hq; subst hq
        simp only
        exact ⟨h1, by omega, by omega, by omega⟩

/-! ### the skipping loops of error recovery stay inside the text and never move backwards -/

theorem skipTillEol_reach (gs : List G) : ∀ (fuel : Nat) (p : PS), Reach gs p →
    Reach gs (skipTillEol gs fuel p) ∧ p.cursor ≤ (skipTillEol gs fuel p).cursor := by
  intro fuel
  induction fuel with
  | zero => intro p hp; exact ⟨hp, Nat.le_refl _⟩
  | succ fuel ih =>
    intro p hp
    simp only [skipTillEol]
    cases hg : gs[p.cursor]? with
    | none => exact ⟨hp, Nat.le_refl _⟩
    | some g =>
      simp only
      by_cases hnl : g.nl = true
      · rw [if_pos hnl]; exact ⟨hp, Nat.le_refl _⟩
      · rw [if_neg hnl]
        cases hq : consumeOne gs p with
        | none => exact ⟨hp, Nat.le_refl _⟩
        | some q =>
          simp only
          obtain ⟨r1, r2⟩ := ih q (Reach.step hp hq)
          obtain ⟨hc, _⟩ := consumeOne_cursor gs p q hq
          exact ⟨r1, by omega⟩

/-- after `skip_till_eol` with enough fuel the cursor is at a line break or at the end -/
theorem skipTillEol_stops (gs : List G) : ∀ (fuel : Nat) (p : PS), gs.length - p.cursor ≤ fuel →
    (match gs[(skipTillEol gs fuel p).cursor]? with | some g => g.nl = true | none => True) := by
  intro fuel
  induction fuel with
  | zero =>
    intro p hf
    simp only [skipTillEol]
    have : gs.length ≤ p.cursor := by omega
    rw [List.getElem?_eq_none this]
    trivial
  | succ fuel ih =>
    intro p hf
    simp only [skipTillEol]
    cases hg : gs[p.cursor]? with
    | none => simp only; rw [hg]; trivial
    | some g =>
      simp only
      by_cases hnl : g.nl = true
      · rw [if_pos hnl, hg]; exact hnl
      · rw [if_neg hnl]
        cases hq : consumeOne gs p with
        | none => simp only; rw [hg]; simp only [consumeOne, hg] at hq; rw [if_neg hnl] at hq; cases hq
        | some q =>
          simp only
          obtain ⟨hc, _⟩ := consumeOne_cursor gs p q hq
          exact ih q (by omega)

theorem C09_skips_stay_inside (gs : List G) (p : PS) (h : Reach gs p) :
    Reach gs (skipTillEol gs gs.length p) ∧
    (∀ q, skipPastEol gs p = some q → Reach gs q ∧ p.cursor < q.cursor) ∧
    (∀ q, newLine gs p = some q → Reach gs q ∧ q.cursor = p.cursor + 1) := by
  obtain ⟨r1, r2⟩ := skipTillEol_reach gs gs.length p h
  have hnl : ∀ (p q : PS), Reach gs p → newLine gs p = some q → Reach gs q ∧ q.cursor = p.cursor + 1 := by
    intro p q hp hq
    simp only [newLine] at hq
    cases hg : gs[p.cursor]? with
    | none => rw [hg] at hq; cases hq
    | some g =>
      rw [hg] at hq
      simp only at hq
      split at hq
      · exact ⟨Reach.step hp hq, (consumeOne_cursor gs p q hq).1⟩
      · cases hq
  refine ⟨r1, ?_, fun q hq => hnl p q h hq⟩
  intro q hq
  simp only [skipPastEol] at hq
  obtain ⟨a, b⟩ := hnl _ q r1 hq
  exact ⟨a, by omega⟩

/-! ### the decision at the end of `parse` -/

/-- A tree is returned exactly when a tree was built, nothing was logged and nothing remains
    unparsed; otherwise an error report with at least one entry. -/
theorem C09_parse_ok_iff (hasTree : Bool) (logged remaining : Nat) :
    decide hasTree logged remaining = .tree ↔ (hasTree = true ∧ logged = 0 ∧ remaining = 0) := by
  cases hasTree <;> by_cases hr : remaining = 0 <;> by_cases hl : logged = 0 <;> simp [decide, hr, hl]

theorem C09_report_nonempty (hasTree : Bool) (logged remaining n : Nat)
    (h : decide hasTree logged remaining = .report n) (hcons : hasTree = false → 0 < logged) : 0 < n := by
  cases hasTree with
  | false =>
    have := hcons rfl
    simp only [decide, Bool.false_eq_true, and_false, if_false, Outcome.report.injEq] at h
    omega
  | true =>
    by_cases hr : remaining = 0 <;> by_cases hl : logged = 0 <;> simp [decide, hr, hl] at h <;> omega

/-! ### the recovery loop makes progress or stops -/

/-- The statement-level recovery loop never moves backwards, and with as many turns as there
    are graphemes it ends either at the end of the input or at a position where no progress
    is possible — it cannot spin. -/
theorem C09_recovery_progress (len : Nat) (next : Nat → Nat) : ∀ (fuel c : Nat),
    c ≤ recoveryLoop len next fuel c ∧
    (len - c ≤ fuel → (len ≤ recoveryLoop len next fuel c ∨ next (recoveryLoop len next fuel c) ≤ recoveryLoop len next fuel c)) := by
  intro fuel
  induction fuel with
  | zero => intro c; exact ⟨Nat.le_refl _, fun h => Or.inl (by simp only [recoveryLoop]; omega)⟩
  | succ fuel ih =>
    intro c
    simp only [recoveryLoop]
    by_cases h1 : c ≥ len
    · rw [if_pos h1]; exact ⟨Nat.le_refl _, fun _ => Or.inl h1⟩
    · rw [if_neg h1]
      by_cases h2 : next c ≤ c
      · rw [if_pos h2]; exact ⟨Nat.le_refl _, fun _ => Or.inr h2⟩
      · rw [if_neg h2]
        obtain ⟨a, b⟩ := ih (next c)
        exact ⟨by omega, fun hf => b (by omega)⟩

end MechVerif.Cursor

/-! ### the token-level parser of statements and expressions (Model/Syntax.lean) -/
namespace MechVerif.Syntax

/-- On the modelled sublanguage the parser, a total function of the token text (structural recursion
    on its fuel: it always returns), gives the same outcome for the same text, and a tree only when
    the tree accounts for the entire input: the statements' rendering is the whole text, token for
    token, nothing skipped and nothing left over. -/
theorem C09_tree_accounts_for_entire_input (g : Gram) (n : Nat) (ts : List Tok) :
    (∃ ss, pProg g n ts = some ss ∧ rProg g ss = ts) ∨ pProg g n ts = none := by
  cases h : pProg g n ts with
  | none => exact Or.inr rfl
  | some ss => exact Or.inl ⟨ss, rfl, (pProg_sound g n ts ss h).symm⟩

/-- More fuel than the text needs never changes an accepted outcome's meaning: two accepted parses of
    one text (with whatever fuel) are the same statements. -/
theorem C09_outcome_independent_of_fuel (g : Gram) (n m : Nat) (ts : List Tok) (ss ss' : List Stmt)
    (h : pProg g n ts = some ss) (h' : pProg g m ts = some ss') (hne : ss ≠ [])
    (hok : ∀ s ∈ ss, costStmt s ≤ m ∧ okStmt g s) : ss' = ss := by
  have e := pProg_sound g n ts ss h
  have := pProg_complete g m ss hne hok
  rw [← e, h'] at this
  exact Option.some.inj this

end MechVerif.Syntax

/-! ### the decision at the end of `parser::parse` as it is written

`Gen/ParseWrap.lean` is regenerated from src/syntax/src/parser.rs on every run (`tools/extract_parsewrap.py`);
`C09_parse_wrapper_as_written` (`decide`) says the extracted record is `expected`. -/
namespace MechVerif.ParseWrapIR
open MechVerif.Cursor

/-- **The wrapper as written decides as the model does**: a tree is returned iff the program parser produced one, nothing was
    logged during recovery and nothing remains unparsed; otherwise the report has one entry per logged error, one for the
    failure itself and one for leftover input. -/
theorem C09_wrapper_as_written_is_decide (failed : Bool) (recovered remaining : Nat) :
    outcomeAsWritten Gen.ParseWrap.wrap failed recovered remaining =
      Cursor.decide (!failed) (recovered + (if failed then 1 else 0)) remaining := by
  rw [Gen.ParseWrap.C09_parse_wrapper_as_written]
  cases failed <;> by_cases h : remaining = 0 <;> simp [outcomeAsWritten, expected, Cursor.decide, h]

/-! non-vacuity: a wrapper that returned the tree although errors were logged, or forgot the leftover input, is refused -/
example : ({ expected with okIffLogEmpty := false } : WrapIR) ≠ expected := by decide
example : outcomeAsWritten { expected with leftoverAdds := false } false 0 3 = .tree := by decide
example : outcomeAsWritten expected false 0 3 = .report 1 := by decide

end MechVerif.ParseWrapIR
