import MechVerif.Gen.ConcatKernels
import MechVerif.Lemmas.Concat
namespace MechVerif.ConcatIR
open MechVerif.Num MechVerif.Mat MechVerif.Concat

variable {α : Type}

theorem blit_nil (d : List α) (p : Nat) : blit [] d p = .ok d := by simp [blit]

theorem blit_cons (x : α) (xs d : List α) (p : Nat) :
    blit (x :: xs) d p = if p < d.length then blit xs (d.set p x) (p + 1) else .error .index := by
  by_cases hp : p < d.length
  · simp only [hp, if_true]
    cases xs with
    | nil =>
      have : p + 1 ≤ d.length := hp
      simp [blit, this, List.set_eq_take_append_cons_drop, hp]
    | cons y ys =>
      unfold blit
      simp only [List.length_cons, List.length_set]
      by_cases hr : p + (ys.length + 1 + 1) ≤ d.length
      · have hr' : p + 1 + (ys.length + 1) ≤ d.length := by omega
        simp only [hr, hr', if_true, Nat.succ_ne_zero, if_false, Except.ok.injEq]
        apply List.ext_getElem?
        intro k
        simp only [List.getElem?_append, List.length_take, List.length_append, List.length_cons, List.getElem?_take,
          List.getElem?_drop, List.getElem?_set, List.length_set]
        grind
      · have hr' : ¬ p + 1 + (ys.length + 1) ≤ d.length := by omega
        simp [hr, hr']
  · have : ¬ p + (xs.length + 1) ≤ d.length := by omega
    simp [blit, hp, this]

/-- the loop of `copy_into*`: element `i` of the source to position `i + off` -/
theorem forFrom_copy (src : Mat α) (off : Nat) (body : Nat → Mat α → Except Err (Mat α))
    (hbody : ∀ i d, body i d = bindE (readLin src i) (fun t => bindE (writeLin d (i + off) t) (fun d => .ok d))) :
    ∀ (xs : List α) (i : Nat) (d : Mat α), src.data.drop i = xs →
    forFrom body i xs.length d
      = match blit xs d.data (i + off) with
        | .error e => .error e
        | .ok r => .ok ⟨d.rows, d.cols, r⟩ := by
  intro xs
  induction xs with
  | nil => intro i d _; simp [forFrom, blit_nil]
  | cons x xs ih =>
    intro i d h
    have hx : src.data[i]? = some x := by
      have := congrArg (fun l => l[0]?) h
      simpa [List.getElem?_drop] using this
    have hd : src.data.drop (i + 1) = xs := by
      have := congrArg List.tail h
      simpa [List.tail_drop] using this
    simp only [List.length_cons, forFrom, hbody, readLin, getE, hx, bindE, writeLin, blit_cons]
    by_cases hp : i + off < d.data.length
    · simp only [hp, if_true]
      rw [ih (i + 1) _ hd]
      simp only [Nat.add_right_comm i 1 off]
    · simp [hp]

theorem copy_into_eq (src dst : Mat α) (off : Nat) (hs : Mat.wf' src) :
    Gen.ConcatKernels.copy_into src dst off = copyLin src dst off := by
  unfold Gen.ConcatKernels.copy_into copyLin
  simp only [forRange, len]
  rw [← hs, forFrom_copy src off _ (fun _ _ => rfl) src.data 0 dst (by simp)]
  simp only [Nat.zero_add]
  cases blit src.data dst.data off <;> simp [bindE, hs]

end MechVerif.ConcatIR
