import MechVerif.Driver.Scalar
import MechVerif.Model.Lit
namespace MechVerif.Driver
open MechVerif.Num MechVerif.Lit MechVerif.FloatX

def hwSci : SciImpl where
  mulPow10 := fun m neg e =>
    let ex := Float.ofBits e
    ((Float.ofBits m) * Float.pow 10.0 (if neg then -ex else ex)).toBits
  f64ToF32 := fun b => (Float.ofBits b).toFloat32.toBits

def digitOf (c : Char) (base : Nat) : Option Nat :=
  match hexDigit c with
  | some d => if d < base then some d else none
  | none => none

/-- digits with optional underscores (an underscore must sit between digits) -/
def parseDigits (base : Nat) (cs : List Char) : Option (List Nat × Bool) :=
  if cs.isEmpty || cs.head? == some '_' || cs.getLast? == some '_' then none else
  let us := cs.contains '_'
  (cs.filter (· != '_')).mapM (fun c => digitOf c base) |>.map (fun ds => (ds, us))

def kindishOf (s : String) : Option Kindish :=
  if s == "f32" then some .f32 else if s == "f64" then some .f64 else (IKind.ofName s).map .int

structure Parsed where
  sp : Spelling
  sciIntMantissa : Bool := false      -- `1e3`: no fractional part in the mantissa
  signedSuffix : Bool := false

/-- split a spelling into its form (what the specification's grammar §4.2 reads) -/
def parseSpelling (t : String) : Option Parsed :=
  let cs := t.toList
  if t.startsWith "0x" then (parseDigits 16 (cs.drop 2)).map (fun p => ⟨.based 16 p.1 p.2, false, false⟩)
  else if t.startsWith "0o" then (parseDigits 8 (cs.drop 2)).map (fun p => ⟨.based 8 p.1 p.2, false, false⟩)
  else if t.startsWith "0b" then (parseDigits 2 (cs.drop 2)).map (fun p => ⟨.based 2 p.1 p.2, false, false⟩)
  else if t.startsWith "0d" then (parseDigits 10 (cs.drop 2)).map (fun p => ⟨.based 10 p.1 p.2, false, false⟩)
  else if cs.contains '/' then
    match t.splitOn "/" with
    | [n, d] => (match parseDigits 10 n.toList, parseDigits 10 d.toList with
        | some (n, _), some (d, _) => some ⟨.rational n d, false, false⟩ | _, _ => none)
    | _ => none
  else
    -- [digits][.digits][e[+-]digits] | digits suffix
    let isDig (c : Char) := c.isDigit || c == '_'
    let ip := cs.takeWhile isDig
    let r1 := cs.drop ip.length
    let (fp, r2, hasDot) := match r1 with
      | '.' :: rest => (rest.takeWhile isDig, rest.drop (rest.takeWhile isDig).length, true)
      | _ => ([], r1, false)
    match r2 with
    | [] =>
      if hasDot then
        (match (if ip.isEmpty then some ([], false) else parseDigits 10 ip), parseDigits 10 fp with
         | some (i, _), some (f, _) => some ⟨.float i f, false, false⟩ | _, _ => none)
      else (parseDigits 10 ip).map (fun p => ⟨.integer p.1, false, false⟩)
    | 'e' :: rest | 'E' :: rest =>
      let (neg, exs) := match rest with | '-' :: x => (true, x) | '+' :: x => (false, x) | x => (false, x)
      (match (if ip.isEmpty then some ([], false) else parseDigits 10 ip), (if hasDot then parseDigits 10 fp else some ([], false)), parseDigits 10 exs with
       | some (i, _), some (f, _), some (e, _) => some ⟨.scientific i f neg e, !hasDot, false⟩ | _, _, _ => none)
    | suffix =>
      if hasDot then none else
      match parseDigits 10 ip, kindishOf (String.ofList suffix) with
      | some (i, _), some k => some ⟨.typed i k, false, (match k with | .int ik => ik.signed | _ => false)⟩
      | _, _ => none

def lvalText : LVal → String
  | .f64 b => "f64:" ++ hexFixed (canonNaN64 b).toNat 16
  | .f32 b => "f32:" ++ hexFixed (canonNaN32 b).toNat 8
  | .int k v => k.name ++ ":" ++ toString v
  | .rat n d => s!"r64:{n}/{d}"
  | .cplx re im => "c64:" ++ hexFixed (canonNaN64 re).toNat 16 ++ "," ++ hexFixed (canonNaN64 im).toNat 16

/-- what the spelling denotes (`none`: the only acceptable outcome is an error) together
    with whether an error is acceptable as well -/
def specValue (p : Parsed) : Option LVal × Bool :=
  match p.sp with
  | .integer ds => (some (.f64 (ratToF64 (digitsVal 10 ds) 1)), false)
  | .float ip fp => (some (.f64 (ratToF64 (digitsVal 10 (ip ++ fp)) (10 ^ fp.length))), false)
  | .scientific ip fp neg ex =>
    let n := digitsVal 10 (ip ++ fp)
    let x := digitsVal 10 ex
    let k := fp.length
    -- value = n · 10^(±x - k)
    if neg then (some (.f64 (ratToF64 n (10 ^ (x + k)))), false)
    else if x ≥ k then (some (.f64 (ratToF64 (n * 10 ^ (x - k)) 1)), false)
    else (some (.f64 (ratToF64 n (10 ^ (k - x)))), false)
  | .based base ds _ => let v := digitsVal base ds; if v > I64MAX then (none, true) else (some (.int .i64 v), false)
  | .typed ds k =>
    let n : Int := digitsVal 10 ds
    (match k with
     | .f64 => (some (.f64 (ratToF64 n.toNat 1)), false)
     | .f32 => (some (.f32 (intToF32 n)), false)
     | .int ik => if ik.inR n then (some (.int ik n), false) else (some (.int ik ik.hi), true))   -- clamped as documented, or rejected
  | .rational n d =>
    let nv := digitsVal 10 n; let dv := digitsVal 10 d
    if dv == 0 || nv > I64MAX || dv > I64MAX then (none, true) else let r := gcdNorm nv dv; (some (.rat r.1 r.2), false)

/-- the literal in context: optional prefix minus, complex forms, optional annotation -/
structure ParsedLit where
  lit : Literal
  inner : List Parsed          -- the spellings inside (for the finding regions)

def splitComplex (cs : List Char) : Option (List Char × Bool × List Char) :=
  -- body without the trailing i/j: re (+|-) im, or im alone
  let idx := (cs.zipIdx.filter (fun p => (p.1 == '+' || p.1 == '-') && p.2 > 0)).map (·.2)
  match idx with
  | [] => some ([], false, cs)
  | [k] => some (cs.take k, cs[k]? == some '-', cs.drop (k + 1))
  | _ => none

def parseLit (t : String) (annot : Option Kindish) : Option ParsedLit :=
  let cs := t.toList
  let (neg, cs) := match cs with | '-' :: r => (true, r) | r => (false, r)
  match annot with
  | some k => (parseSpelling (String.ofList cs)).map (fun p => ⟨.annotated k neg p.sp, [p]⟩)
  | none =>
    if cs.getLast? == some 'i' || cs.getLast? == some 'j' then
      match splitComplex cs.dropLast with
      | none => none
      | some (re, minus, im) =>
        (match (if re.isEmpty then some none else (parseSpelling (String.ofList re)).map some), parseSpelling (String.ofList im) with
         | some r, some i => some ⟨.complex neg (r.map (·.sp)) minus i.sp, (match r with | some x => [x, i] | none => [i])⟩
         | _, _ => none)
    else
      (parseSpelling (String.ofList cs)).map (fun p => ⟨if neg then .neg p.sp else .plain p.sp, [p]⟩)

def lvalText' : LVal → String := lvalText

def negSpec : LVal → LVal
  | .f64 b => .f64 (b ^^^ SIGN64)
  | .f32 b => .f32 (b ^^^ SIGN32)
  | .int k v => .int k (-v)
  | .rat n d => .rat (-n) d
  | .cplx a b => .cplx (a ^^^ SIGN64) (b ^^^ SIGN64)

/-- what the literal denotes; `none` = only an error is acceptable; flag = an error is acceptable too -/
def specLit13 (pl : ParsedLit) : Option LVal × Bool :=
  match pl.lit, pl.inner with
  | .plain _, [p] => specValue p
  | .neg _, [p] =>
    (match specValue p with
     | (some (.int k v), e) =>
       if k.signed then (some (.int k (-v)), e)
       else if v == 0 then (some (.int k 0), e) else (some (.int k 0), true)    -- below the kind: clamped to 0 or rejected
     | (some v, e) => (some (negSpec v), e)
     | (none, e) =>
       -- `-0x8000000000000000` is i64::MIN; the positive literal alone does not fit
       (match p.sp with
        | .based b ds _ => if digitsVal b ds == 2 ^ 63 then (some (.int .i64 (-(2 ^ 63 : Int))), true) else (none, e)
        | _ => (none, e)))
  | .complex negOuter re minus im, _ =>
    let f (s : Spelling) : Option UInt64 := match specValue ⟨s, false, false⟩ with | (some (.f64 b), _) => some b | _ => none
    (match (match re with | none => some (0 : UInt64) | some r => f r), f im with
     | some a, some b =>
       (some (.cplx (if negOuter then a ^^^ SIGN64 else a) (if minus then b ^^^ SIGN64 else b)), false)
     | _, _ => (none, true))
  | .annotated k neg (.integer ds), _ =>
    let n : Int := if neg then -(digitsVal 10 ds : Int) else digitsVal 10 ds
    (match k with
     | .f64 => (some (.f64 (if neg then ratToF64 (digitsVal 10 ds) 1 ^^^ SIGN64 else ratToF64 (digitsVal 10 ds) 1)), false)
     | .f32 => (some (.f32 (if neg then intToF32 (digitsVal 10 ds) ^^^ SIGN32 else intToF32 (digitsVal 10 ds))), false)
     | .int ik => if ik.inR n then (some (.int ik n), false) else (some (.int ik (if n < ik.lo then ik.lo else ik.hi)), true))
  | .annotated .f64 neg (.float ip fp), _ =>
    let b := ratToF64 (digitsVal 10 (ip ++ fp)) (10 ^ fp.length)
    (some (.f64 (if neg then b ^^^ SIGN64 else b)), false)
  | _, _ => (none, true)

def runC13 (fields : List String) (obs : String) : String × String × String :=
  let go (hx : String) (annot : Option Kindish) : String × String × String :=
    match unhexText hx with
    | none => ("bad-case", "bad-case", "-")
    | some cs =>
      let t := String.ofList cs
      match parseLit t annot with
      | none => ("unparsed-spelling", "bad-case", "-")
      | some pl =>
        let anySigned := pl.inner.any (·.signedSuffix)
        let anySciInt := pl.inner.any (·.sciIntMantissa)
        -- model of the pinned commit
        let model : String :=
          if anySigned then (match pl.lit with | .neg _ => "parseerr" | _ => "notcode")                    -- C13-D4: `7i8` is read as an imaginary literal
          else if anySciInt then "err"                      -- C13-D1: `1e3` lexes as a typed integer `1e…`
          else match evalLit hwSci pl.lit with
            | .ok v => lvalText' v
            | .error _ => "err"
        let (sv, errOk) := specLit13 pl
        let verdict := match sv with
          | some v => if obs == lvalText' v || (errOk && obs == "err") then "ok" else "bad:expected " ++ lvalText' v
          | none => if obs == "err" then "ok" else "bad:expected an error"
        let region :=
          if verdict == "ok" then "-"
          else if anySigned then "C13-D4"
          else if anySciInt then "C13-D1"
          else match pl.lit with
            | .complex true _ _ _ => "C13-D6"
            | .annotated _ _ _ => "C13-D3"
            | _ => match (pl.inner.map (·.sp) : List Spelling) with
              | [Spelling.scientific _ _ _ _] => "C13-D2"
              | [Spelling.typed _ _] => "C13-D3"
              | [Spelling.based _ _ true] => "C13-D5"
              | _ => "-"
        (model, verdict, region)
  match fields with
  | [_, hx] => go hx none
  | [_, hx, k] => (match kindishOf k with | some kk => go hx (some kk) | none => ("bad-case", "bad-case", "-"))
  | _ => ("bad-case", "bad-case", "-")

end MechVerif.Driver
