#!/bin/sh
# Offline build of the framework: Lean project (theorems + driver) and the Rust harness.
set -e
cd "$(dirname "$0")"
export CARGO_NET_OFFLINE=true RUSTC_BOOTSTRAP=1
(cd lean && lake build MechVerif mvdriver)
[ -f harness/Cargo.lock ] || cp /repo/Cargo.lock harness/Cargo.lock
(cd harness && cargo build --profile fast --offline)
