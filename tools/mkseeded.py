#!/usr/bin/env python3
"""regenerates the table of seeded/README.md from the meta.json files (the text above the table is kept)"""
import json, os, re
root = os.path.join(os.path.dirname(os.path.abspath(__file__)), "..", "seeded")
readme = os.path.join(root, "README.md")
head = open(readme).read().split("| change |")[0]
def key(d):
    m = re.match(r"C(\d+)([a-z]?)-", d)
    return (int(m.group(1)), m.group(2), d)
rows = []
for d in sorted((x for x in os.listdir(root) if os.path.isdir(os.path.join(root, x))), key=key):
    m = json.load(open(os.path.join(root, d, "meta.json")))
    caught = ", ".join(m.get("caught_by", {}).keys()) or "-"
    nc = m.get("not_caught_by", [])
    nc = ", ".join(nc) if isinstance(nc, list) else str(nc)
    rows.append("| %s | %s | %s; trigger: %s | %s | %s | %s |" % (d, m["property"], m["summary"], m["trigger"], caught, nc or "-", m.get("note", "")))
open(readme, "w").write(head + "| change | property | what it does | caught by | not caught by (also run) | note |\n|---|---|---|---|---|---|\n" + "\n".join(rows) + "\n")
print(len(rows), "changes")
