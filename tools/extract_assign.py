#!/usr/bin/env python3
"""Regenerates lean/MechVerif/Gen/AssignKernels.lean from the source of the indexed-assignment kernels:

* src/interpreter/src/stdlib/assign/matrix.rs: `assign_1d_scalar`, `set_1d_range*`, `assign_2d_all_*`,
  `assign_2d_scalar_all_*`, `assign_2d_range_scalar*`, `assign_2d_scalar_range*`, `assign_2d_range_range*`,
  `assign_2d_all_range{,_b}`, `assign_2d_range_all{,_b}`;
* machines/math/src/op_assign/{add,sub,mul,div}_assign.rs: `<op>_assign_1d_range{,_b,_vec,_vec_b}`,
  `<op>_assign_2d_vector_all{,_b}`.

Every macro body is parsed (blocks, `for`, `if`, `let`, expressions) and the one statement that writes an element of
the sink is read together with the loops and conditions around it: per coordinate of the sink element how it is
computed, which loop is outer, whether a view on the sink was taken before the loops, which element of the source
is written, and the operator.  The result is a value of `MechVerif.AssignIR.KIR` per macro.  Names of local
variables and the layout of the text do not matter; `let` bindings are resolved.  Library calls are read with their
documented meaning: `v.iter()` visits `v[0], v[1], …`; `.enumerate()` pairs them with 0, 1, …; `m.column_mut(c)[r]`
and `m.row_mut(r)[c]` are the element (r, c) of `m` and panic outside it; `m.iter_mut()` visits the elements of `m`
in storage order; `x.clone()` is `x`.
A body the reader does not recognise makes `generate` return (False, reason) — it never guesses.

Outside the table (not read): `assign_1d_scalar_b`, `assign_1d_scalar_vb` (a scalar logical index), and the kernels
that copy whole rows / columns with `iter_mut().zip(…)`: `assign_2d_all_range_v{,b}`, `assign_2d_range_all_v{,b}`,
`<op>_assign_2d_vector_all_mat{,_b}`."""
import os, re, sys
sys.path.insert(0, os.path.dirname(os.path.abspath(__file__)))
from extract_kernels import macro_bodies, Unrecognised

MATRIX_RS = "src/interpreter/src/stdlib/assign/matrix.rs"
ASSIGN_KERNELS = ["assign_1d_scalar", "set_1d_range", "set_1d_range_b", "set_1d_range_vec", "set_1d_range_vec_b",
                  "assign_2d_all_scalar", "assign_2d_all_vector", "assign_2d_scalar_all_scalar", "assign_2d_scalar_all_vector",
                  "assign_2d_range_scalar", "assign_2d_range_scalar_v", "assign_2d_range_scalar_b", "assign_2d_range_scalar_vb",
                  "assign_2d_scalar_range", "assign_2d_scalar_range_v", "assign_2d_scalar_range_b", "assign_2d_scalar_range_vb",
                  "assign_2d_range_range", "assign_2d_range_range_v", "assign_2d_range_range_b", "assign_2d_range_range_vb",
                  "assign_2d_range_range_bu", "assign_2d_range_range_vbu", "assign_2d_range_range_ub", "assign_2d_range_range_vub",
                  "assign_2d_all_range", "assign_2d_all_range_b", "assign_2d_range_all", "assign_2d_range_all_b"]
OPS = ["add", "sub", "mul", "div"]
OP_SUFFIXES = ["1d_range", "1d_range_b", "1d_range_vec", "1d_range_vec_b", "2d_vector_all", "2d_vector_all_b"]
OUTSIDE = ["assign_1d_scalar_b", "assign_1d_scalar_vb", "assign_2d_all_range_v", "assign_2d_all_range_vb",
           "assign_2d_range_all_v", "assign_2d_range_all_vb"] + ["%s_assign_2d_vector_all_mat%s" % (o, s) for o in OPS for s in ("", "_b")]

TOK = re.compile(r'\$\w+|[A-Za-z_]\w*|\d+|==|!=|>=|<=|&&|\|\||\.\.|=>|\+=|-=|\*=|/=|[-+*/%^<>=(){}\[\];,.&!|:]')
ASSIGN_OPS = {'=': '.set', '+=': '.add', '-=': '.sub', '*=': '.mul', '/=': '.div'}
KEYWORDS = {'in', 'let', 'for', 'if', 'else', 'true', 'false'}

def tokens(body):
    body = re.sub(r'//[^\n]*', '', body)
    toks = TOK.findall(body)
    if '=>' not in toks: raise Unrecognised("no `=>` in macro")
    head, toks = toks[:toks.index('=>')], toks[toks.index('=>') + 1:]
    params = [t for t in head if t.startswith('$')]
    ren = {}
    for n, p in enumerate([p for p in params if p.startswith('$ix')]): ren[p] = 'I%d' % n
    ren['$source'] = 'S'; ren['$sink'] = 'K'
    for p in params:
        if p not in ren: raise Unrecognised("unknown macro parameter " + p)
    res = []
    for t in toks:
        if t.startswith('$'):
            if t not in ren: raise Unrecognised("unknown macro variable " + t)
            t = ren[t]
        if t in ('unsafe', 'mut'): continue
        prev = res[-1] if res else None
        operand_before = prev is not None and ((re.match(r'^\w+$', prev) is not None and prev not in KEYWORDS) or prev in (']', ')'))
        if t == '*' and not operand_before: continue          # dereference
        if t == '&': continue                                   # borrow / reference pattern
        res.append(t)
    return res

# ---- expressions --------------------------------------------------------------------------------------------------

class P:
    def __init__(self, ts): self.t, self.i = ts, 0
    def peek(self): return self.t[self.i] if self.i < len(self.t) else None
    def take(self, x=None):
        if self.i >= len(self.t) or (x is not None and self.t[self.i] != x):
            raise Unrecognised("expected %s at `%s`" % (x, ' '.join(self.t[self.i:self.i + 8])))
        self.i += 1; return self.t[self.i - 1]
    def expr(self):
        a = self.sum()
        if self.peek() in ('==', '!='):
            op = self.take(); b = self.sum(); return ('cmp', op, a, b)
        return a
    def sum(self):
        a = self.term()
        while self.peek() in ('+', '-'):
            op = self.take(); a = ('bin', op, a, self.term())
        return a
    def term(self):
        a = self.postfix()
        while self.peek() in ('*', '/', '%'):
            op = self.take(); a = ('bin', op, a, self.postfix())
        return a
    def postfix(self):
        a = self.atom()
        while True:
            if self.peek() == '[':
                self.take(); e = self.expr(); self.take(']'); a = ('idx', a, e)
            elif self.peek() == '.':
                self.take('.'); name = self.take()
                if not re.match(r'^[A-Za-z_]\w*$', name): raise Unrecognised("method name " + name)
                self.take('('); args = []
                while self.peek() != ')':
                    args.append(self.expr())
                    if self.peek() == ',': self.take()
                self.take(')'); a = ('call', a, name, args)
            else: return a
    def atom(self):
        x = self.take()
        if x == '(':
            e = self.expr()
            if self.peek() == ',':
                self.take(); f = self.expr(); self.take(')'); return ('tuple', e, f)
            self.take(')'); return e
        if re.match(r'^\d+$', x): return ('num', int(x))
        if re.match(r'^[A-Za-z_]\w*$', x) and x not in ('in', 'let', 'for', 'if', 'else'): return ('name', x)
        raise Unrecognised("expression at `%s`" % ' '.join(self.t[self.i - 1:self.i + 7]))

def parse_expr(ts):
    p = P(ts); e = p.expr()
    if p.i != len(ts): raise Unrecognised("trailing tokens in expression: " + ' '.join(ts))
    return e

def strip_clone(e):
    while e[0] == 'call' and e[2] == 'clone' and not e[3]: e = e[1]
    return e

# ---- statements and blocks -----------------------------------------------------------------------------------------

def parse_block(t):
    def block(i):
        out = []
        while i < len(t):
            x = t[i]
            if x == '}': return out, i + 1
            if x == ';': i += 1; continue
            if x == '{':
                body, i = block(i + 1); out.extend(body); continue
            if x == 'for':
                j = t.index('{', i); head = t[i + 1:j]
                if 'in' not in head: raise Unrecognised("loop header: " + ' '.join(head))
                k = head.index('in')
                body, i = block(j + 1); out.append(('for', head[:k], head[k + 1:], body)); continue
            if x == 'if':
                j = t.index('{', i); cond = t[i + 1:j]
                body, i = block(j + 1)
                if i < len(t) and t[i] == 'else': raise Unrecognised("`else` branch")
                out.append(('if', cond, body)); continue
            j, d = i, 0
            while j < len(t) and not (t[j] in (';', '}') and d == 0):
                d += (t[j] in ('(', '[', '{')) - (t[j] in (')', ']', '}'))
                j += 1
            out.append(('stmt', t[i:j])); i = j + (1 if j < len(t) and t[j] == ';' else 0)
        return out, i
    return block(0)[0]

def is_name(e, n=None): return e[0] == 'name' and (n is None or e[1] == n)
def is_call(e, meth, nargs=0): return e[0] == 'call' and e[2] == meth and len(e[3]) == nargs
def arg_no(e):
    if e[0] == 'name' and re.match(r'^I\d$', e[1]): return int(e[1][1:])
    return None

def show(e):
    k = e[0]
    if k == 'name': return e[1]
    if k == 'num': return str(e[1])
    if k == 'idx': return "%s[%s]" % (show(e[1]), show(e[2]))
    if k == 'call': return "%s.%s(%s)" % (show(e[1]), e[2], ', '.join(show(a) for a in e[3]))
    if k in ('bin', 'cmp'): return "(%s %s %s)" % (show(e[2]), e[1], show(e[3]))
    if k == 'tuple': return "(%s, %s)" % (show(e[1]), show(e[2]))
    if k in ('var', 'val'): return "<%s %d>" % (k, e[1])
    return str(e)

def read_kernel(body):
    prog = parse_block(tokens(body))
    loops = []       # per loop: dict(kind='range'|'iter'|'sink', bound=Lean Bound text | None, arg=a | None, depth)
    writes = []
    guards = {}      # arg -> dim
    # names are resolved into ('var', loop id) = the loop's position variable, ('val', loop id) = the element the
    # loop visits (of the index argument it iterates), or the expression a `let` bound them to
    def resolve(e, env):
        k = e[0]
        if k == 'name':
            if e[1] in env: return env[e[1]]
            if e[1] in ('S', 'K', 'true', 'false') or arg_no(e) is not None: return e
            raise Unrecognised("unknown name " + e[1])
        if k == 'num': return e
        if k == 'idx': return ('idx', resolve(e[1], env), resolve(e[2], env))
        if k == 'call': return ('call', resolve(e[1], env), e[2], [resolve(a, env) for a in e[3]])
        if k in ('bin', 'cmp'): return (k, e[1], resolve(e[2], env), resolve(e[3], env))
        if k == 'tuple': return ('tuple', resolve(e[1], env), resolve(e[2], env))
        raise Unrecognised("expression " + str(e))
    def bound_of(e):
        if is_call(e, 'len') or is_call(e, 'nrows') or is_call(e, 'ncols'):
            a = arg_no(e[1])
            if a is not None: return "(.argLen %d)" % a                  # index arguments are vectors: nrows/ncols not used on them
            if is_name(e[1], 'K'): return "(.dim .%s)" % {'len': 'len', 'nrows': 'rows', 'ncols': 'cols'}[e[2]]
        raise Unrecognised("loop bound " + show(e))
    def walk(stmts, env, path, conds, views):
        env = dict(env)
        for s in stmts:
            if s[0] == 'stmt':
                ts = s[1]
                if ts[:1] == ['let']:
                    if len(ts) < 4 or ts[2] != '=' or not re.match(r'^[A-Za-z_]\w*$', ts[1]): raise Unrecognised("let: " + ' '.join(ts))
                    e = resolve(parse_expr(ts[3:]), env)
                    if e[0] == 'call' and e[2] in ('column_mut', 'row_mut') and is_name(e[1], 'K'):
                        views = dict(views); views[ts[1]] = len(path)     # a view on the sink, taken at this loop depth
                    env[ts[1]] = e
                    continue
                d, cut = 0, None
                for k, x in enumerate(ts):
                    d += (x in ('(', '[')) - (x in (')', ']'))
                    if d == 0 and x in ASSIGN_OPS: cut = k; break
                if cut is None:
                    if 'panic' in ts: raise Unrecognised("panic outside a length check")
                    raise Unrecognised("statement: " + ' '.join(ts))
                raw_target = parse_expr(ts[:cut])
                hoisted = False
                base = raw_target
                while base[0] in ('idx', 'call'): base = base[1]
                if base[0] == 'name' and base[1] in views and views[base[1]] < len(path): hoisted = True
                writes.append((list(path), list(conds), resolve(raw_target, env), ts[cut], resolve(parse_expr(ts[cut + 1:]), env), hoisted))
            elif s[0] == 'for':
                pat = s[1]
                lid = len(loops); e2 = dict(env)
                if '..' in s[2] and s[2][:2] != ['0', '..']: raise Unrecognised("loop range " + ' '.join(s[2]))
                if s[2][:2] == ['0', '..']:
                    if len(pat) != 1: raise Unrecognised("loop pattern " + ' '.join(pat))
                    loops.append(dict(kind='range', bound=bound_of(resolve(parse_expr(s[2][2:]), env)), arg=None))
                    e2[pat[0]] = ('var', lid)
                else:
                    enum, src = False, resolve(parse_expr(s[2]), env)
                    if is_call(src, 'enumerate'): enum, src = True, src[1]
                    if is_call(src, 'iter') and arg_no(src[1]) is not None:
                        loops.append(dict(kind='iter', bound="(.argLen %d)" % arg_no(src[1]), arg=arg_no(src[1])))
                    elif is_call(src, 'iter_mut') and is_name(src[1], 'K'):
                        loops.append(dict(kind='sink', bound="(.dim .len)", arg=None))
                    else: raise Unrecognised("loop over " + show(src))
                    if enum:
                        if len(pat) != 5 or pat[0] != '(' or pat[2] != ',' or pat[4] != ')': raise Unrecognised("loop pattern " + ' '.join(pat))
                        e2[pat[1]] = ('var', lid); e2[pat[3]] = ('val', lid)
                    else:
                        if len(pat) != 1: raise Unrecognised("loop pattern " + ' '.join(pat))
                        e2[pat[0]] = ('val', lid)
                walk(s[3], e2, path + [lid], conds, views)
            else:
                if any(x[0] == 'stmt' and 'panic' in x[1] for x in s[2]):
                    parts, cur, d = [], [], 0
                    for x in s[1]:
                        d += (x in ('(', '[')) - (x in (')', ']'))
                        if x == '||' and d == 0: parts.append(cur); cur = []
                        else: cur.append(x)
                    parts.append(cur)
                    for part in parts:
                        c = resolve(parse_expr(part), env)
                        if not (c[0] == 'cmp' and c[1] == '!=' and is_call(c[2], 'len') and arg_no(c[2][1]) is not None
                                and c[3][0] == 'call' and is_name(c[3][1], 'K') and c[3][2] in ('len', 'nrows', 'ncols') and not c[3][3]):
                            raise Unrecognised("length check: " + ' '.join(part))
                        if path: raise Unrecognised("length check inside a loop")
                        guards[arg_no(c[2][1])] = {'nrows': 'rows', 'ncols': 'cols', 'len': 'len'}[c[3][2]]
                else:
                    walk(s[2], env, path, conds + [resolve(parse_expr(s[1]), env)], views)
    walk(prog, {}, [], [], {})
    if len(writes) != 1: raise Unrecognised("%d statements write the sink (one expected)" % len(writes))
    path, conds, target, optok, rhs, hoisted = writes[0]
    # ---- conditions: which loop variable is kept by which mask
    masks = {}       # loop id -> ('true'|'nonzero'|'quot', arg, extra)
    for c in conds:
        if c[0] == 'cmp' and c[1] == '==' and is_name(c[3], 'true'): c = c[2]
        how = 'true'
        if c[0] == 'cmp' and c[1] == '!=' and c[3] == ('num', 0): c, how = c[2], 'nonzero'
        if c[0] == 'val' and loops[c[1]]['kind'] == 'iter':
            lid, a, extra = c[1], loops[c[1]]['arg'], None
        elif c[0] == 'idx' and arg_no(c[1]) is not None and c[2][0] == 'var':
            lid, a, extra = c[2][1], arg_no(c[1]), None
            if loops[lid]['kind'] == 'iter' and loops[lid]['arg'] != a: raise Unrecognised("condition " + show(c))
        elif (c[0] == 'idx' and arg_no(c[1]) is not None and c[2][0] == 'bin' and c[2][1] == '/' and c[2][2][0] == 'var'
              and c[2][3][0] == 'call' and is_name(c[2][3][1], 'K') and c[2][3][2] in ('nrows', 'ncols') and how == 'true'):
            lid, a, how, extra = c[2][2][1], arg_no(c[1]), 'quot', {'nrows': 'rows', 'ncols': 'cols'}[c[2][3][2]]
        else: raise Unrecognised("condition " + show(c))
        if lid in masks or lid not in path: raise Unrecognised("condition " + show(c))
        masks[lid] = (how, a, extra)
    used = {}        # loop id -> 'row' | 'col'
    def axis(e, which):
        m1 = False
        if e[0] == 'bin' and e[1] == '-' and e[3] == ('num', 1): m1, e = True, e[2]
        t = "true" if m1 else "false"
        a = arg_no(e)
        if a is not None: return ".std (.scalar %d %s)" % (a, t)
        lid = None
        if e[0] == 'idx' and arg_no(e[1]) is not None and e[2][0] == 'var':
            lid, a = e[2][1], arg_no(e[1])
            if loops[lid]['kind'] == 'sink': raise Unrecognised("coordinate " + show(e))
            if loops[lid]['kind'] == 'iter' and loops[lid]['arg'] != a: raise Unrecognised("coordinate " + show(e))
            res = ".std (.vec %d %s %s)" % (a, t, loops[lid]['bound'])
        elif e[0] == 'val' and loops[e[1]]['kind'] == 'iter':
            lid = e[1]; res = ".std (.vec %d %s %s)" % (loops[lid]['arg'], t, loops[lid]['bound'])
        elif e[0] == 'var':
            lid = e[1]
            if lid in masks:
                how, a, extra = masks[lid]
                if how == 'true' and not m1:
                    g = guards.get(a); res = ".std (.mask %d %s %s)" % (a, loops[lid]['bound'], "(some .%s)" % g if g else "none")
                elif how == 'true' and m1 and a not in guards: res = ".maskPred %d %s" % (a, loops[lid]['bound'])
                elif how == 'nonzero' and not m1 and a not in guards: res = ".nonzero %d %s" % (a, loops[lid]['bound'])
                elif how == 'quot' and not m1 and a not in guards: res = ".maskQuot %d %s .%s" % (a, loops[lid]['bound'], extra)
                else: raise Unrecognised("coordinate " + show(e) + (" - 1" if m1 else ""))
            else:
                if m1 or loops[lid]['kind'] == 'iter': raise Unrecognised("coordinate " + show(e) + (" - 1" if m1 else ""))
                res = ".std (.all %s)" % loops[lid]['bound']
        else: raise Unrecognised("coordinate " + show(e))
        if lid in used or lid not in path: raise Unrecognised("loop variable used twice: " + show(e))
        if lid in masks and e[0] != 'var': raise Unrecognised("mask on a loop whose variable is not the coordinate: " + show(e))
        used[lid] = which
        return res
    # ---- the element of the sink that is written
    row = col = None; rowE = colE = None
    t = target
    if t[0] == 'idx' and is_name(t[1], 'K') and t[2][0] == 'tuple': rowE, colE = t[2][1], t[2][2]
    elif t[0] == 'idx' and t[1][0] == 'call' and is_name(t[1][1], 'K') and t[1][2] == 'column_mut' and len(t[1][3]) == 1: rowE, colE = t[2], t[1][3][0]
    elif t[0] == 'idx' and t[1][0] == 'call' and is_name(t[1][1], 'K') and t[1][2] == 'row_mut' and len(t[1][3]) == 1: rowE, colE = t[1][3][0], t[2]
    elif t[0] == 'idx' and is_name(t[1], 'K'): colE = t[2]
    elif t[0] == 'val' and loops[t[1]]['kind'] == 'sink': colE = ('var', t[1])      # `*val` of `sink.iter_mut()`: the element at the position
    else: raise Unrecognised("target " + show(t))
    if rowE is not None: row = axis(rowE, 'row')
    col = axis(colE, 'col')
    for lid in path:
        if lid not in used: raise Unrecognised("a loop whose variable is no coordinate of the written element")
    for lid in masks:
        if lid not in used: raise Unrecognised("mask on a variable that is no coordinate")
    if len(path) > 2: raise Unrecognised("more than two loops")
    col_outer = True
    if len(path) == 2: col_outer = used[path[0]] == 'col'
    if hoisted and not path: hoisted = False
    # ---- the source element
    rhs = strip_clone(rhs)
    def sexpr(e):
        if rowE is not None and e == rowE and e[0] not in ('var', 'num'): return ".rowCoord"
        if e == colE and e[0] not in ('var', 'num'): return ".colCoord"
        if e[0] == 'var' and e[1] in used: return ".rowVar" if used[e[1]] == 'row' else ".colVar"
        if e[0] == 'num': return "(.lit %d)" % e[1]
        if is_call(e, 'len') and arg_no(e[1]) is not None: return "(.argLen %d)" % arg_no(e[1])
        if e[0] == 'call' and is_name(e[1], 'K') and e[2] in ('nrows', 'ncols', 'len') and not e[3]:
            return "(.dim .%s)" % {'nrows': 'rows', 'ncols': 'cols', 'len': 'len'}[e[2]]
        if e[0] == 'bin' and e[1] in ('+', '*'): return "(.%s %s %s)" % ('add' if e[1] == '+' else 'mul', sexpr(e[2]), sexpr(e[3]))
        raise Unrecognised("source index " + show(e))
    if is_name(rhs, 'S'): src = ".whole"
    elif rhs[0] == 'idx' and is_name(rhs[1], 'S'):
        s = sexpr(rhs[2]); src = ".at %s" % s
    else: raise Unrecognised("right-hand side " + show(rhs))
    return row, col, col_outer, hoisted, src, ASSIGN_OPS[optok]

def extract(repo="/repo"):
    out = []
    def read(path, names):
        text = open(os.path.join(repo, path), newline='').read().replace('\r\n', '\n')
        bodies = macro_bodies(text)
        for k in names:
            if k not in bodies: raise Unrecognised("macro %s not found in %s" % (k, path))
            try: out.append((k,) + read_kernel(bodies[k]))
            except (Unrecognised, ValueError, IndexError) as e: raise Unrecognised("%s: %s" % (k, e))
        return bodies
    read(MATRIX_RS, ASSIGN_KERNELS)
    for op in OPS:
        read("machines/math/src/op_assign/%s_assign.rs" % op, ["%s_assign_%s" % (op, s) for s in OP_SUFFIXES])
    return out

STATEMENTS_RS = "src/interpreter/src/statements.rs"

def read_dispatch(text):
    """the arms of `op_assign!` (statements.rs): per subscript pattern and index shape the struct whose `compile` is
    pushed on the plan, and whether its name is built from the operator (`[<$op AssignRange>]`)"""
    bodies = macro_bodies(text)
    if 'op_assign' not in bodies: raise Unrecognised("macro op_assign not found")
    body = re.sub(r'//[^\n]*', '', bodies['op_assign'])
    arms = []
    for m in re.finditer(r'\[\s*(Subscript::\w+(?:\(\w*\))?(?:\s*,\s*Subscript::\w+(?:\(\w*\))?)*)\s*\]\s*=>\s*\{', body):
        i, d = m.end(), 1
        while d and i < len(body):
            d += (body[i] == '{') - (body[i] == '}'); i += 1
        block = body[m.end():i - 1]
        subs = re.findall(r'Subscript::(\w+)', m.group(1))
        for pm in re.finditer(r'(?:\[\s*(\w+)\s*,\s*(\w+)\s*\]\s*=>\s*)?plan\s*\.\s*borrow_mut\(\)\s*\.\s*push\(\s*(?:\[<\s*\$op\s+(\w+)\s*>\]|(\w+))\s*\{\s*\}\s*\.\s*compile\(', block):
            shape = "%s,%s" % (pm.group(1), pm.group(2)) if pm.group(1) else ""
            arms.append((subs, shape, pm.group(3) or pm.group(4), pm.group(3) is not None))
    if len(arms) != len(re.findall(r'plan\s*\.\s*borrow_mut\(\)\s*\.\s*push\s*\(', body)): raise Unrecognised("op_assign!: a `plan.borrow_mut().push(` that is not `…push(<struct>{}.compile(` inside a `[Subscript::…] =>` arm")
    if not arms: raise Unrecognised("op_assign!: no arm")
    uses = re.findall(r'op_assign!\(\s*(\w+)\s*,\s*(\w+)\s*\)', re.sub(r'//[^\n]*', '', text))
    return arms, uses

def lean_kir(k):
    name, row, col, co, hoist, src, op = k
    return '   ("%s", ⟨%s, %s, %s, %s, %s, %s⟩)' % (name, "none" if row is None else "some (%s)" % row, col,
                                                    "true" if co else "false", "true" if hoist else "false", src, op)

def generate(root, repo="/repo"):
    try:
        ks = extract(repo)
        arms, uses = read_dispatch(open(os.path.join(repo, STATEMENTS_RS), newline='').read().replace('\r\n', '\n'))
    except (Unrecognised, OSError) as e: return False, "C04 assign-kernel extraction failed: %s" % e
    L = ["/- GENERATED by tools/extract_assign.py from src/interpreter/src/stdlib/assign/matrix.rs and",
         "   machines/math/src/op_assign/{add,sub,mul,div}_assign.rs — do not edit. -/",
         "import MechVerif.Lemmas.AssignIR", "namespace MechVerif.Gen.AssignKernels", "open MechVerif.AccessIR MechVerif.AssignIR", "",
         "/-- (kernel macro, what its body says) -/", "def kernels : List (String × KIR) :=", "  ["]
    L.append(",\n".join(lean_kir(k) for k in ks) + "]")
    L += ["", "/-- the arms of `op_assign!` (src/interpreter/src/statements.rs): subscript pattern, shape of the index, the struct that is",
          "    compiled, whether its name is built from the operator -/", "def opArms : List OpArm :=", "  ["]
    L.append(",\n".join('   ⟨[%s], "%s", "%s", %s⟩' % (", ".join('"%s"' % x for x in subs), shape, st, "true" if per else "false")
                        for subs, shape, st, per in arms) + "]")
    L += ["", "/-- the instances of `op_assign!`: (function, operator) -/", "def opAssignUses : List (String × String) :=",
          "  [" + ", ".join('("%s", "%s")' % u for u in uses) + "]"]
    L += ["", "/-- every kernel the signature table names is extracted; a kernel listed in `knownDeviations` has exactly the listed shape,",
          "    which is not accepted; every other kernel, as written, is accepted for what it is meant to do -/",
          "theorem C04_assign_kernels_as_written_ok : tableOk kernels = true := by decide",
          "", "/-- every arm of `op_assign!` compiles a struct of the statement's own operator, of the family its subscripts call for, or is a",
          "    listed deviation with exactly this struct; the four operators are instantiated with their own names -/",
          "theorem C04_op_assign_arms_as_written_ok : armsOk opArms opAssignUses = true := by decide",
          "", "end MechVerif.Gen.AssignKernels", ""]
    text = "\n".join(L)
    out = os.path.join(root, 'lean', 'MechVerif', 'Gen', 'AssignKernels.lean')
    old = open(out).read() if os.path.exists(out) else None
    if old != text: open(out, 'w').write(text)
    return True, "C04 assign kernels extracted: %d macros, %d op_assign! arms" % (len(ks), len(arms))

if __name__ == '__main__':
    root = os.path.dirname(os.path.dirname(os.path.abspath(__file__)))
    if len(sys.argv) > 1 and sys.argv[1] == '--show':
        try:
            for x in extract(sys.argv[2] if len(sys.argv) > 2 else "/repo"): print(x)
        except Unrecognised as e: print((False, str(e)))
    elif len(sys.argv) > 1 and sys.argv[1] == '--repo': print(generate(root, sys.argv[2]))
    else: print(generate(root))
