import MechVerif.Model.FenceTag
namespace MechVerif.FenceTag

/-- a single-character pattern that the text does not start with is not removed -/
theorem trimGo_head_ne (c : Char) (n : List Char) (h : n.head? ≠ some c) : ∀ f, trimGo [c] f n = n := by
  intro f
  cases f with
  | zero => rfl
  | succ f =>
    cases n with
    | nil => simp [trimGo, dropPrefix?]
    | cons x xs =>
      have hx : c ≠ x := by intro hc; subst hc; simp at h
      simp [trimGo, dropPrefix?, hx]

/-- after the prefix and the colon have been removed the name is what remains -/
theorem strip_colon (n : List Char) (h : n.head? ≠ some ':') : trimStartMatches [':'] (':' :: n) = n := by
  unfold trimStartMatches
  simp only [List.length_cons, trimGo, dropPrefix?]
  simp only [List.cons_ne_self, reduceCtorEq, if_false, if_true]
  exact trimGo_head_ne ':' n h _

theorem trim_not_starting (p : List Char) (c : Char) (x : Char) (ps : List Char) (s : List Char) (hp : p = x :: ps) (hx : x ≠ c) :
    trimStartMatches p (c :: s) = c :: s := by
  subst hp
  unfold trimStartMatches
  simp [trimGo, dropPrefix?, hx]

end MechVerif.FenceTag
