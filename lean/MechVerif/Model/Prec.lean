/-
Formula parsing by grammar level (`formula`/`l1 … l7`/`factor` in
src/syntax/src/expressions.rs): level k parses a level-(k+1) operand and then
`many0 (operator of level k, level-(k+1) operand)`, producing a `Term` that `term()`
(src/interpreter/src/expressions.rs) folds from the left.  Atoms (literals, variables,
parenthesised formulas, prefix `-`/`!` applied to a factor, postfix `'`) are opaque here.
-/
namespace MechVerif.Prec

structure Op where
  name : Nat
  lvl : Nat          -- grammar level: a higher level binds tighter
deriving DecidableEq, Repr

inductive Tree (α : Type) where
  | leaf : α → Tree α
  | node : Tree α → Op → Tree α → Tree α
deriving Repr, DecidableEq

abbrev Rest (α : Type) := List (Op × α)

def Tree.first {α : Type} : Tree α → α
  | .leaf a => a
  | .node l _ _ => l.first

/-- the in-order operator/operand sequence after the first operand -/
def Tree.tail {α : Type} : Tree α → Rest α
  | .leaf _ => []
  | .node l o r => l.tail ++ (o, r.first) :: r.tail

/-- `many0(pair(op_k, next_level))` folded into a left-nested term; `n` bounds the
    iterations (it is never the reason for stopping, see `loop_bound_not_hit`) -/
def loopWith {α : Type} (p : α → Rest α → Tree α × Rest α) (k : Nat) :
    Nat → Tree α → Rest α → Tree α × Rest α
  | 0, acc, r => (acc, r)
  | _ + 1, acc, [] => (acc, [])
  | n + 1, acc, (o, b) :: r =>
    if o.lvl = k then
      let res := p b r
      loopWith p k n (.node acc o res.1) res.2
    else (acc, (o, b) :: r)

/-- `parseLevel f k`: the parser of grammar level `k` when `f` levels remain above the atoms -/
def parseLevel {α : Type} : Nat → Nat → α → Rest α → Tree α × Rest α
  | 0, _, a, rest => (.leaf a, rest)
  | f + 1, k, a, rest =>
    let res := parseLevel f (k + 1) a rest
    loopWith (parseLevel f (k + 1)) k res.2.length res.1 res.2

/-- `formula` for a grammar with levels 1 … N -/
def parseFormula {α : Type} (N : Nat) (a : α) (rest : Rest α) : Tree α × Rest α := parseLevel N 1 a rest

/-- evaluation: `term()` applies the operator function to the evaluated sides -/
def Tree.eval {α β : Type} (atom : α → β) (ap : Op → β → β → β) : Tree α → β
  | .leaf a => atom a
  | .node l o r => ap o (l.eval atom ap) (r.eval atom ap)

end MechVerif.Prec
