/-
Mechdown documents as the interpreter walks them
(src/interpreter/src/mechdown.rs `section_element`, `eval_fenced_code_block`): prose elements
do nothing; a code line and an unnamed fence run in the main interpreter and an error aborts
the document; a fence with a name runs in the sub-interpreter of that name (created on first
use) and an error only ends that fence; a disabled fence does nothing.
Generic in the store `σ`, the statements `τ` and their execution `exec` (`none` = error).
-/
namespace MechVerif.Doc

inductive Elem (τ : Type) where
  | prose
  | code (s : τ)
  | unnamed (ss : List τ)
  | named (ns : String) (ss : List τ)
  | disabled (ss : List τ)
deriving Repr

structure DState (σ : Type) where
  main : σ
  subs : List (String × σ)

variable {σ τ : Type}

/-- statements in order; the first error aborts (`None`) -/
def runAll (exec : σ → τ → Option σ) : σ → List τ → Option σ
  | s, [] => some s
  | s, t :: rest => (match exec s t with | some s' => runAll exec s' rest | none => none)

/-- statements in order; the first error ends the run and the store reached so far stays
    (`isolate_errors`) -/
def runIso (exec : σ → τ → Option σ) : σ → List τ → σ
  | s, [] => s
  | s, t :: rest => (match exec s t with | some s' => runIso exec s' rest | none => s)

def getSub (init : σ) (subs : List (String × σ)) (ns : String) : σ :=
  ((subs.find? (fun p => p.1 == ns)).map (·.2)).getD init

def setSub (subs : List (String × σ)) (ns : String) (v : σ) : List (String × σ) :=
  if subs.any (fun p => p.1 == ns) then subs.map (fun p => if p.1 == ns then (ns, v) else p) else subs ++ [(ns, v)]

/-- one section element; `none` = the document is aborted by an error in the main program -/
def stepElem (exec : σ → τ → Option σ) (init : σ) (d : DState σ) : Elem τ → Option (DState σ)
  | .prose => some d
  | .disabled _ => some d
  | .code s => (exec d.main s).map (fun m => { d with main := m })
  | .unnamed ss => (runAll exec d.main ss).map (fun m => { d with main := m })
  | .named ns ss => some { d with subs := setSub d.subs ns (runIso exec (getSub init d.subs ns) ss) }

/-- the whole document; on an abort the state reached so far is what remains (flag false) -/
def interp (exec : σ → τ → Option σ) (init : σ) : DState σ → List (Elem τ) → DState σ × Bool
  | d, [] => (d, true)
  | d, e :: rest =>
    (match e with
     | .unnamed ss =>
       -- an unnamed fence that fails keeps what its earlier statements did
       (match runAll exec d.main ss with
        | some m => interp exec init { d with main := m } rest
        | none => ({ d with main := runIso exec d.main ss }, false))
     | _ =>
       match stepElem exec init d e with
       | some d' => interp exec init d' rest
       | none => (d, false))

/-- the document's executable code of the main program, in document order -/
def mainCode : List (Elem τ) → List τ
  | [] => []
  | .code s :: rest => s :: mainCode rest
  | .unnamed ss :: rest => ss ++ mainCode rest
  | _ :: rest => mainCode rest

/-- the fences of one name, in document order -/
def nsChunks (ns : String) : List (Elem τ) → List (List τ)
  | [] => []
  | .named n ss :: rest => if n == ns then ss :: nsChunks ns rest else nsChunks ns rest
  | _ :: rest => nsChunks ns rest

end MechVerif.Doc
