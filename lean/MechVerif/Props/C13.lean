/-
C13 — Numeric literals denote the number they spell.
Model: `Model/Lit.lean` (value functions per literal form; exact decimal→binary
rounding), `Model/Float.lean` (integer rounding used by conversions).
-/
import MechVerif.Model.Lit
namespace MechVerif.Lit
open MechVerif.FloatX MechVerif.Num

theorem digitsVal_append (base : Nat) (ds : List Nat) (d : Nat) :
    digitsVal base (ds ++ [d]) = digitsVal base ds * base + d := by
  simp [digitsVal, List.foldl_append]

theorem foldl_horner (base : Nat) : ∀ (ds : List Nat) (acc : Nat),
    ds.foldl (fun a d => a * base + d) acc = acc * base ^ ds.length + denote base ds := by
  intro ds
  induction ds with
  | nil => intro acc; simp [denote]
  | cons d ds ih =>
    intro acc
    simp only [List.foldl_cons, ih, denote, List.length_cons, Nat.pow_succ]
    rw [Nat.add_mul, Nat.mul_assoc, Nat.mul_comm base (base ^ ds.length)]
    omega

/-- Horner evaluation computes the positional value: digit strings of every length and
    every base denote Σ dᵢ·baseⁱ. -/
theorem C13_digits_denote (base : Nat) (ds : List Nat) : digitsVal base ds = denote base ds := by
  unfold digitsVal
  rw [foldl_horner base ds 0]
  simp

/-- Based literals (0x…, 0o…, 0b…, 0d…) evaluate exactly to the integer their digits
    spell (kind i64), for all lengths that fit. -/
theorem C13_based_exact (si : SciImpl) (base : Nat) (ds : List Nat) (h : denote base ds ≤ I64MAX) :
    valueOf si (.based base ds false) = .ok (.int .i64 (denote base ds)) := by
  simp only [valueOf, Bool.false_eq_true, if_false, C13_digits_denote]
  have : ¬ denote base ds > I64MAX := by omega
  simp [this]

/-- A rational literal with zero denominator is rejected. -/
theorem C13_zero_denominator_rejected (si : SciImpl) (n d : List Nat) (hn : denote 10 n ≤ I64MAX)
    (hd : denote 10 d = 0) : valueOf si (.rational n d) = .error .panic := by
  simp only [valueOf, C13_digits_denote, hd]
  have : ¬ denote 10 n > I64MAX := by omega
  simp [this, I64MAX]

/-- A rational literal evaluates to the reduced fraction equal to n/d. -/
theorem C13_rational_reduced (si : SciImpl) (n d : List Nat) (a b : Int)
    (h : valueOf si (.rational n d) = .ok (.rat a b)) :
    a * (denote 10 d : Int) = (denote 10 n : Int) * b ∧ Int.gcd a b = 1 ∧ 0 < b := by
  simp only [valueOf, C13_digits_denote] at h
  split at h
  · cases h
  · split at h
    · cases h
    · rename_i hbig hz
      simp only [Except.ok.injEq, LVal.rat.injEq] at h
      obtain ⟨ha, hb⟩ := h
      have hdpos : 0 < denote 10 d := by
        cases hdd : denote 10 d with
        | zero => simp [hdd] at hz
        | succ k => omega
      have hg : 0 < Nat.gcd (denote 10 n) (denote 10 d) := Nat.gcd_pos_of_pos_right _ hdpos
      have hnotneg : ¬ ((denote 10 d : Int) < 0) := by omega
      simp only [gcdNorm, hnotneg, if_false] at ha hb
      have hgn : (Int.gcd (denote 10 n : Int) (denote 10 d : Int)) = Nat.gcd (denote 10 n) (denote 10 d) := by
        simp [Int.gcd]
      rw [hgn] at ha hb
      have ha' : a = ((denote 10 n / Nat.gcd (denote 10 n) (denote 10 d) : Nat) : Int) := by rw [← ha]; exact (Int.natCast_ediv _ _).symm
      have hb' : b = ((denote 10 d / Nat.gcd (denote 10 n) (denote 10 d) : Nat) : Int) := by rw [← hb]; exact (Int.natCast_ediv _ _).symm
      have hdvn : Nat.gcd (denote 10 n) (denote 10 d) ∣ denote 10 n := Nat.gcd_dvd_left _ _
      have hdvd : Nat.gcd (denote 10 n) (denote 10 d) ∣ denote 10 d := Nat.gcd_dvd_right _ _
      refine ⟨?_, ?_, ?_⟩
      · rw [ha', hb']
        have key : denote 10 n / Nat.gcd (denote 10 n) (denote 10 d) * denote 10 d =
            denote 10 n * (denote 10 d / Nat.gcd (denote 10 n) (denote 10 d)) := by
          obtain ⟨x, hx⟩ := hdvn
          obtain ⟨y, hy⟩ := hdvd
          generalize Nat.gcd (denote 10 n) (denote 10 d) = g at *
          rw [hx, hy, Nat.mul_div_cancel_left _ hg, Nat.mul_div_cancel_left _ hg]
          rw [Nat.mul_comm g y, ← Nat.mul_assoc, Nat.mul_comm (x * y) g, Nat.mul_assoc]
        exact_mod_cast key
      · rw [ha', hb']
        simp only [Int.gcd, Int.natAbs_natCast]
        exact Nat.coprime_div_gcd_div_gcd hg
      · rw [hb']
        have : 0 < denote 10 d / Nat.gcd (denote 10 n) (denote 10 d) :=
          Nat.div_pos (Nat.le_of_dvd hdpos hdvd) hg
        exact_mod_cast this

/-- A suffixed integer that does not fit its kind is clamped into the kind, never an
    unrelated value; one that fits (and is exactly representable) is itself. -/
theorem C13_typed_in_kind (si : SciImpl) (ds : List Nat) (k : IKind) (v : Int)
    (h : valueOf si (.typed ds (.int k)) = .ok (.int k v)) : k.inR v = true := by
  simp only [valueOf, Except.ok.injEq, LVal.int.injEq, true_and] at h
  subst h
  have hlohi : k.lo ≤ 0 ∧ 0 ≤ k.hi := by cases k <;> simp [IKind.lo, IKind.hi, IKind.bits, IKind.signed]
  simp only [IKind.inR, Bool.and_eq_true, decide_eq_true_eq]
  cases decode64 (ratToF64 (digitsVal 10 ds) 1) with
  | nan => exact hlohi
  | posInf => simp only [floatToInt]; exact ⟨by omega, by omega⟩
  | negInf => simp only [floatToInt]; exact ⟨by omega, by omega⟩
  | finite x =>
    simp only [floatToInt]
    split
    · omega
    · split <;> omega

theorem floatToInt_inR (k : IKind) (c : Cls) : k.inR (floatToInt k.lo k.hi c) = true := by
  have hlohi : k.lo ≤ 0 ∧ 0 ≤ k.hi := by cases k <;> simp [IKind.lo, IKind.hi, IKind.bits, IKind.signed]
  simp only [IKind.inR, Bool.and_eq_true, decide_eq_true_eq]
  cases c with
  | nan => exact hlohi
  | posInf => simp only [floatToInt]; exact ⟨by omega, by omega⟩
  | negInf => simp only [floatToInt]; exact ⟨by omega, by omega⟩
  | finite x =>
    simp only [floatToInt]
    split
    · omega
    · split <;> omega

/-- An annotated literal (`x<u8> := 300`, `x<i8> := -129`) always lies in its kind: out of
    range digits are clamped, never wrapped to an unrelated value. -/
theorem C13_annotated_in_kind (si : SciImpl) (k : IKind) (neg : Bool) (s : Spelling) (k' : IKind) (v : Int)
    (h : evalLit si (.annotated (.int k) neg s) = .ok (.int k' v)) : k' = k ∧ k.inR v = true := by
  simp only [evalLit] at h
  cases hv : valueOf si s with
  | error e => rw [hv] at h; cases h
  | ok w =>
    rw [hv] at h
    cases hf : asF64 w with
    | error e => simp only [hf] at h; cases h
    | ok f =>
      simp only [hf, Except.ok.injEq, LVal.int.injEq] at h
      obtain ⟨h1, h2⟩ := h
      subst h1; subst h2
      exact ⟨rfl, floatToInt_inR _ _⟩

/-- A prefix minus on a literal negates exactly: applying it twice is the identity, integer
    and rational values change sign exactly, and an unsigned suffixed literal is rejected. -/
theorem C13_negate_exact (v w : LVal) (h : negate v = .ok w) : negate w = .ok v := by
  cases v with
  | f64 b => simp only [negate, Except.ok.injEq] at h; subst h; simp [negate, UInt64.xor_assoc]
  | f32 b => simp only [negate, Except.ok.injEq] at h; subst h; simp [negate, UInt32.xor_assoc]
  | int k x =>
    simp only [negate] at h
    split at h
    · next hk => simp only [Except.ok.injEq] at h; subst h; simp [negate, hk]
    · cases h
  | rat n d => simp only [negate, Except.ok.injEq] at h; subst h; simp [negate]
  | cplx a b => simp only [negate, Except.ok.injEq] at h; subst h; simp [negate, UInt64.xor_assoc]

theorem C13_negate_int (k : IKind) (x : Int) (hk : k.signed = true) : negate (.int k x) = .ok (.int k (-x)) := by
  simp [negate, hk]

theorem C13_negate_unsigned_rejected (k : IKind) (x : Int) (hk : k.signed = false) :
    negate (.int k x) = .error .kind := by
  simp [negate, hk]

/-- A complex literal `re ± im i` without a prefix minus has exactly the two parts' values. -/
theorem C13_complex_parts (si : SciImpl) (re im : Spelling) (minus : Bool) (a b : UInt64)
    (hre : valueOf si re = .ok (.f64 a)) (him : valueOf si im = .ok (.f64 b)) :
    evalLit si (.complex false (some re) minus im) = .ok (.cplx a (if minus then b ^^^ SIGN64 else b)) := by
  simp [evalLit, hre, him, asF64]

/-- Rounding an integer to p significant bits: exact when it fits, otherwise within half
    a unit of the last place (the decimal→binary conversion of `Model/Lit.lean` and the
    integer→float conversion of `Model/Float.lean` are built on this). -/
theorem C13_roundNat_exact (p n : Nat) (h : bitLen n ≤ p) : roundNat p n = (n, 0) := by
  simp [roundNat, h]

theorem pow_carry (p s : Nat) (hp : 0 < p) : 2 ^ (p - 1) * 2 ^ (s + 1) = 2 ^ p * 2 ^ s := by
  obtain ⟨k, hk⟩ : ∃ k, p = k + 1 := ⟨p - 1, by omega⟩
  subst hk
  simp only [Nat.add_sub_cancel, Nat.pow_succ]
  ac_rfl

theorem C13_roundNat_nearest (p n : Nat) (hp : 0 < p) (h : p < bitLen n) :
    let r := roundNat p n
    2 * (n - r.1 * 2 ^ r.2) ≤ 2 ^ r.2 ∧ 2 * (r.1 * 2 ^ r.2 - n) ≤ 2 ^ r.2 := by
  have hnle : ¬ bitLen n ≤ p := by omega
  simp only [roundNat, hnle, if_false]
  generalize hs : bitLen n - p = s
  have hs1 : 1 ≤ s := by omega
  have hpow : 2 ^ s = 2 * 2 ^ (s - 1) := by
    have : s = (s - 1) + 1 := by omega
    rw [this, Nat.pow_succ, Nat.mul_comm]; simp
  have hdm := Nat.div_add_mod n (2 ^ s)
  have hmod : n % 2 ^ s < 2 ^ s := Nat.mod_lt _ (Nat.two_pow_pos s)
  generalize hq : n / 2 ^ s = q at *
  generalize hr : n % 2 ^ s = r at *
  generalize hh : 2 ^ (s - 1) = half at *
  have hn : n = q * (2 * half) + r := by rw [← hpow, Nat.mul_comm]; omega
  by_cases hup : (r > half || (r == half && q % 2 == 1)) = true
  · simp only [hup, if_true]
    have hr2 : half ≤ r := by
      simp only [Bool.or_eq_true, decide_eq_true_eq, Bool.and_eq_true, beq_iff_eq] at hup
      rcases hup with h1 | ⟨h1, _⟩ <;> omega
    by_cases hc : (q + 1 == 2 ^ p) = true
    · simp only [hc, if_true]
      have hcq : q + 1 = 2 ^ p := by simpa using hc
      have e1 : 2 ^ (p - 1) * 2 ^ (s + 1) = (q + 1) * (2 * half) := by
        rw [hcq, ← hpow]; exact pow_carry p s hp
      have e2 : 2 ^ (s + 1) = 2 * (2 * half) := by rw [Nat.pow_succ, hpow]; omega
      rw [e1, e2]
      have : (q + 1) * (2 * half) = q * (2 * half) + 2 * half := by rw [Nat.add_mul]; simp
      omega
    · simp only [hc, Bool.false_eq_true, if_false]
      rw [hpow]
      have : (q + 1) * (2 * half) = q * (2 * half) + 2 * half := by rw [Nat.add_mul]; simp
      omega
  · simp only [hup]
    have hr2 : r ≤ half := by
      simp only [Bool.or_eq_true, decide_eq_true_eq, Bool.and_eq_true, beq_iff_eq, not_or, not_and] at hup
      omega
    have hq2 : q < 2 ^ p → True := fun _ => trivial
    by_cases hc : (q == 2 ^ p) = true
    · -- q has exactly p bits, so q = 2^p cannot happen; handle it arithmetically anyway
      simp only [hc, if_true, Bool.false_eq_true, if_false]
      have hcq : q = 2 ^ p := by simpa using hc
      have e1 : 2 ^ (p - 1) * 2 ^ (s + 1) = q * (2 * half) := by
        rw [hcq, ← hpow]; exact pow_carry p s hp
      have e2 : 2 ^ (s + 1) = 2 * (2 * half) := by rw [Nat.pow_succ, hpow]; omega
      rw [e1, e2]
      omega
    · simp only [hc, Bool.false_eq_true, if_false]
      rw [hpow]
      omega

/-! ### non-vacuity and the spellings of the specification -/
example : denote 16 [15, 15] = 255 := by decide
example : (ratToF64 15 10).toNat = 0x3ff8000000000000 := by decide                 -- 1.5
example : (ratToF64 1 10).toNat = 0x3fb999999999999a := by decide +kernel           -- 0.1
example : roundNat 53 9007199254740993 = (4503599627370496, 1) := by decide +kernel -- ties to even

end MechVerif.Lit
