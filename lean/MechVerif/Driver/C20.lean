import MechVerif.Driver.Util
import MechVerif.Spec.Include
namespace MechVerif.Driver
open MechVerif.Include

def splitPath (t : List Char) : Path := splitSlash t

def parseFS : List String → Option (List (Path × Text))
  | [] => some []
  | e :: es =>
    match e.splitOn "=" with
    | [p, c] =>
      match unhexText p, unhexText c, parseFS es with
      | some p, some c, some r => some ((splitPath p, c) :: r)
      | _, _, _ => none
    | _ => none

def renderInclude : Except Err Text → String
  | .ok s => "ok:" ++ hexOfText s
  | .error .circular => "err:circular"
  | .error (.missing n) => "err:missing:" ++ hexOfText n
  | .error .fuel => "err:fuel"

/-- returns (model observation, verdict on the implementation observation, region) -/
def runC20 (fields : List String) (obs : String) : String × String × String :=
  match fields with
  | _ :: root :: files =>
    match unhexText root, parseFS files with
    | some root, some fl =>
      let fs : FS := { files := fl }
      let model := renderInclude (load fs root)
      let v := match verdict fs root with
        | .mustBeOk s => if obs == "ok:" ++ hexOfText s then "ok" else "bad:expected ok:" ++ hexOfText s
        | .rootMissing => if obs == "err:missing:" ++ hexOfText root then "ok" else "bad:expected missing root"
        | .mustBeError cyc miss =>
          if (cyc && obs == "err:circular") || miss.any (fun n => obs == "err:missing:" ++ hexOfText n)
          then "ok" else "bad:expected an include error (cycle=" ++ toString cyc ++ ", missing=" ++ toString miss.length ++ ")"
      (model, v, "-")
    | _, _ => ("bad-case", "bad-case", "-")
  | _ => ("bad-case", "bad-case", "-")

end MechVerif.Driver
