//! C20: include expansion. Case: `include <root> <path>=<content> ...` (all hex).
use crate::common::*;
use std::path::PathBuf;
use std::sync::atomic::{AtomicU64, Ordering};

static COUNTER: AtomicU64 = AtomicU64::new(0);

fn unhex(s: &str) -> Vec<u8> {
  if s == "-" { return vec![]; }
  (0..s.len() / 2).map(|i| u8::from_str_radix(&s[2 * i..2 * i + 2], 16).unwrap()).collect()
}

pub fn exec(case: &str) -> String {
  let f: Vec<&str> = case.split('\t').collect();
  assert!(f[0] == "include");
  let root = String::from_utf8(unhex(f[1])).unwrap();
  let n = COUNTER.fetch_add(1, Ordering::Relaxed);
  let base = std::env::temp_dir().join(format!("mvh-c20-{}-{}", std::process::id(), n));
  let tree = base.join("l1").join("l2").join("root");
  std::fs::create_dir_all(&tree).unwrap();
  for e in &f[2..] {
    let (p, c) = e.split_once('=').unwrap();
    let p = String::from_utf8(unhex(p)).unwrap();
    let path = tree.join(&p);
    std::fs::create_dir_all(path.parent().unwrap()).unwrap();
    std::fs::write(&path, unhex(c)).unwrap();
  }
  let canon_tree = tree.canonicalize().unwrap();
  let r = mech::read_mech_source_file(&tree.join(&root));
  let obs = match r {
    Ok(mech_core::MechSourceCode::String(s)) => format!("ok:{}", hexs(&s)),
    Ok(_) => "err:other:notstring".to_string(),
    Err(e) => {
      let msg = e.kind_message();
      let msg = msg.trim().to_string();
      if msg.contains("Circular include detected") { "err:circular".to_string() }
      else if let Some(ix) = msg.find("Include failed: ") {
        let mut name = msg[ix + "Include failed: ".len()..].to_string();
        // root-missing reports the full path; report it relative to the tree root
        let pre1 = format!("{}/", tree.display());
        let pre2 = format!("{}/", canon_tree.display());
        if let Some(r) = name.strip_prefix(&pre1) { name = r.to_string(); }
        else if let Some(r) = name.strip_prefix(&pre2) { name = r.to_string(); }
        format!("err:missing:{}", hexs(&name))
      } else { format!("err:other:{}", hexs(&msg)) }
    }
  };
  let _ = std::fs::remove_dir_all(&base);
  obs
}

fn rel(from_dir: &[&str], to: &[&str], rng: &mut Rng) -> String {
  // relative path from directory `from_dir` to file `to`
  let mut k = 0;
  while k < from_dir.len() && k + 1 < to.len() && from_dir[k] == to[k] { k += 1; }
  let mut parts: Vec<String> = vec![];
  for _ in k..from_dir.len() { parts.push("..".into()); }
  for c in &to[k..] { parts.push(c.to_string()); }
  let mut s = parts.join("/");
  match rng.below(12) {
    0 => s = format!("./{}", s),
    1 if !from_dir.is_empty() => s = format!("../{}/{}", from_dir[from_dir.len() - 1], s),
    2 => s = s.replacen("/", "//", 1),
    _ => {}
  }
  s
}

const FILES: [&[&str]; 5] = [&["a.mec"], &["b.mec"], &["s", "c.mec"], &["s", "t", "d.mec"], &["u", "e.mec"]];

fn include_line(target: &str, rng: &mut Rng, sink: &mut Sink) -> String {
  let shape = rng.below(10);
  let (l, tag) = match shape {
    0 => (format!("  {{{}}}  ", target), "ws-around"),
    1 => (format!("{{ {} }}", target), "ws-inside"),
    2 => (format!("\t{{{}}}\r", target), "tab-cr"),
    3 => (format!("\u{a0}{{{}}}\u{2003}", target), "unicode-ws"),
    _ => (format!("{{{}}}", target), "plain"),
  };
  sink.hit(&format!("incl-shape:{}", tag));
  l
}

fn noise_line(rng: &mut Rng, sink: &mut Sink) -> String {
  let pool = [
    "x := 1", "Some prose here.", "", "{{a.mec}}", "{a.md}", "{}", "{ }", "{a.mec} tail", "see {a.mec}", "{a.mec", "a.mec}",
    "{x}", "{nope.mec}", "{s/../nope.mec}", "{/abs.mec}", "{../../../zz.mec}", "    ```", "``", "~~", "`inline {a.mec}`",
    "{a.mec}{b.mec}", "{ {a.mec} }", "{.mec}", "{a.mec }", "é🤖 {a.mec}", "{é.mec}", "{a.MEC}",
  ];
  let l = *rng.pick(&pool);
  if l.contains("nope") || l.contains("abs") || l.contains("zz") || l == "{é.mec}" || l == "{.mec}" { sink.hit("line:dangling"); }
  l.to_string()
}

fn fence_block(inner: Vec<String>, rng: &mut Rng, sink: &mut Sink) -> Vec<String> {
  let marker = if rng.chance(1, 2) { '`' } else { '~' };
  let open_len = 3 + rng.below(3) as usize;
  let indent = rng.below(5) as usize; // 4 => not a fence
  let mut v = vec![];
  let info = *rng.pick(&["", "mech", " rust", "mech:ns"]);
  v.push(format!("{}{}{}", " ".repeat(indent), marker.to_string().repeat(open_len), info));
  // maybe a fake closer that is too short or has the other marker or trailing text
  for l in inner {
    match rng.below(6) {
      0 => { v.push(marker.to_string().repeat(open_len.saturating_sub(1).max(1))); sink.hit("fence:short-closer"); }
      1 => { v.push((if marker == '`' { "~" } else { "`" }).repeat(open_len)); sink.hit("fence:other-marker"); }
      2 => { v.push(format!("{} x", marker.to_string().repeat(open_len))); sink.hit("fence:closer-with-text"); }
      _ => {}
    }
    v.push(l);
  }
  match rng.below(5) {
    0 => { sink.hit("fence:unclosed"); }
    1 => { v.push(format!("{}  \t", marker.to_string().repeat(open_len + 1))); sink.hit("fence:long-closer"); }
    2 => { v.push(format!("   {}", marker.to_string().repeat(open_len))); sink.hit("fence:indented-closer"); }
    _ => { v.push(marker.to_string().repeat(open_len)); sink.hit("fence:closed"); }
  }
  sink.hit(&format!("fence:indent{}", indent));
  v
}

fn render_case(nfiles: usize, edges: &[(usize, usize)], rng: &mut Rng, sink: &mut Sink, rich: bool) -> String {
  let mut parts = vec!["include".to_string(), hexs("a.mec")];
  for i in 0..nfiles {
    let me = FILES[i];
    let dir = &me[..me.len() - 1];
    let mut lines: Vec<String> = vec![format!("F{}", i)];
    for (a, b) in edges.iter().filter(|(a, _)| *a == i) {
      let t = rel(dir, FILES[*b], rng);
      let inc = include_line(&t, rng, sink);
      if rich && rng.chance(1, 5) {
        // the include line sits inside a fence: must stay untouched
        let blk = fence_block(vec![inc], rng, sink);
        lines.extend(blk);
        sink.hit("incl-in-fence");
      } else { lines.push(inc); }
      if rich && rng.chance(1, 3) { lines.push(noise_line(rng, sink)); }
      if rich && rng.chance(1, 6) {
        let inner = vec![noise_line(rng, sink), "{b.mec}".to_string()];
        lines.extend(fence_block(inner, rng, sink));
      }
    }
    if rich && rng.chance(1, 3) { lines.push(noise_line(rng, sink)); }
    let nl = if rich && rng.chance(1, 4) { "\r\n" } else { "\n" };
    let mut content = lines.join(nl);
    if !(rich && rng.chance(1, 3)) { content.push_str("\n"); } else { sink.hit("no-trailing-newline"); }
    parts.push(format!("{}={}", hexs(&me.join("/")), hexs(&content)));
  }
  parts.join("\t")
}

pub fn generate(seed: u64, thorough: bool, sink: &mut Sink) -> Vec<String> {
  let mut rng = Rng::new(seed);
  let mut cases = vec![];
  // exhaustive: every edge subset over 3 files (512 graphs), plain and rich rendering
  let n = 3usize;
  let all: Vec<(usize, usize)> = (0..n).flat_map(|a| (0..n).map(move |b| (a, b))).collect();
  for mask in 0u32..(1 << all.len()) {
    let edges: Vec<(usize, usize)> = all.iter().enumerate().filter(|(i, _)| mask >> i & 1 == 1).map(|(_, e)| *e).collect();
    cases.push(render_case(n, &edges, &mut rng, sink, false));
    cases.push(render_case(n, &edges, &mut rng, sink, true));
    sink.hit("graph3-exhaustive");
  }
  // 4 and 5 files: random edge subsets (thorough: all 65536 subsets over 4 files)
  if thorough {
    let n = 4usize;
    let all: Vec<(usize, usize)> = (0..n).flat_map(|a| (0..n).map(move |b| (a, b))).collect();
    for mask in 0u32..(1 << all.len()) {
      let edges: Vec<(usize, usize)> = all.iter().enumerate().filter(|(i, _)| mask >> i & 1 == 1).map(|(_, e)| *e).collect();
      cases.push(render_case(n, &edges, &mut rng, sink, mask % 2 == 1));
      sink.hit("graph4-exhaustive");
    }
  }
  let extra = if thorough { 20000 } else { 1500 };
  for _ in 0..extra {
    let n = 2 + rng.below(4) as usize;
    let mut edges = vec![];
    for a in 0..n { for b in 0..n { if rng.chance(1, 4) { edges.push((a, b)); if rng.chance(1, 8) { edges.push((a, b)); } } } }
    cases.push(render_case(n, &edges, &mut rng, sink, true));
    sink.hit(&format!("random-graph-n{}", n));
  }
  // root missing / root in a subdirectory
  cases.push(format!("include\t{}\t{}={}", hexs("zz.mec"), hexs("a.mec"), hexs("x\n")));
  cases.push(format!("include\t{}\t{}={}\t{}={}", hexs("s/c.mec"), hexs("s/c.mec"), hexs("{../a.mec}\n{t/d.mec}\n"), hexs("a.mec"), hexs("A\n")));
  for c in cases.iter().take(3) { sink.sample(c.clone()); }
  cases
}
