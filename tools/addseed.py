#!/usr/bin/env python3
"""tools/addseed.py <dir> <property> <summary> <trigger> <note> <caught-by comma list or -> [<not-caught comma list>]
writes seeded/<dir>/meta.json and refreshes seeded/README.md"""
import json, os, sys, subprocess
root = os.path.dirname(os.path.dirname(os.path.abspath(__file__)))
d, prop, summary, trigger, note, caught = sys.argv[1:7]
notc = sys.argv[7] if len(sys.argv) > 7 else "-"
meta = {"property": prop, "summary": summary, "trigger": trigger, "author": "sub-agent",
        "confirmed": "re-run in the author's scratch worktree (tools/confirm_seed.sh): demonstration fails with the change and passes without it; the 652 tests pass with the change",
        "caught_by": {c: "quick check, seed 1" for c in caught.split(",") if c and c != "-"},
        "not_caught_by": [c for c in notc.split(",") if c and c != "-"], "note": note}
json.dump(meta, open(os.path.join(root, "seeded", d, "meta.json"), "w"), indent=1)
subprocess.run([sys.executable, os.path.join(root, "tools", "mkseeded.py")])
