/-
String literals: the scanner of `utf8_string` (src/syntax/src/literals.rs) over the `text` tokens of
src/syntax/src/base.rs, and the text-mode emitter `Formatter::string` (src/syntax/src/formatter.rs).
A grapheme is abstracted to the class the scanner looks at and its characters.
-/
namespace MechVerif.StrLit

inductive Cls where
  | quote        -- `"` (punctuation)
  | backslash    -- `\` (symbol)
  | escapable    -- alpha, the other symbols and punctuation: may follow a backslash as an escape
  | plain        -- digit, emoji, space, tab, grouping symbols: text, but not escapable
  | newline      -- \n, \r\n, \r
  | forbidden    -- anything `text` does not accept (control characters, box drawing, …)
deriving DecidableEq, Repr

structure G where
  cls : Cls
  chars : List Char
deriving DecidableEq, Repr

def quoteG : G := ⟨.quote, ['"']⟩
def backslashG : G := ⟨.backslash, ['\\']⟩

/-- `escaped_char`: the character after the backslash, with n, t, r made the control characters -/
def unesc (g : G) : List Char :=
  g.chars.map (fun c => if c = 'n' then '\n' else if c = 't' then '\t' else if c = 'r' then '\r' else c)

/-- the body of a string literal after the opening quote: characters of the content and the
    input after the closing quote; `none` when a grapheme is not allowed or the quote is missing -/
def scan : List G → Option (List Char × List G)
  | [] => none
  | g :: rest =>
    match g.cls with
    | .quote => some ([], rest)
    | .forbidden => none
    | .backslash =>
      (match rest with
       | h :: rest' =>
         if h.cls = .escapable ∨ h.cls = .quote ∨ h.cls = .backslash then
           (match scan rest' with | some (cs, r) => some (unesc h ++ cs, r) | none => none)
         else (match scan (h :: rest') with | some (cs, r) => some (g.chars ++ cs, r) | none => none)
       | [] => none)
    | _ => (match scan rest with | some (cs, r) => some (g.chars ++ cs, r) | none => none)
termination_by l => l.length

/-- `Formatter::string` on the content, grapheme by grapheme: quotes and backslashes are written
    as escapes, everything else as it is -/
def escape : List G → List G
  | [] => []
  | g :: rest =>
    if g.cls = .quote ∨ g.cls = .backslash then backslashG :: g :: escape rest else g :: escape rest

def content (gs : List G) : List Char := gs.flatMap (·.chars)

/-- `Formatter::string` as written: character by character -/
def escapeChars : List Char → List Char
  | [] => []
  | c :: rest => if c = '"' ∨ c = '\\' then '\\' :: c :: escapeChars rest else c :: escapeChars rest

/-- content graphemes the formatter can be given: what `scan` can produce -/
def okContent (g : G) : Prop :=
  (g.cls = .quote → g.chars = ['"']) ∧ (g.cls = .backslash → g.chars = ['\\']) ∧ g.cls ≠ .forbidden

/-- the segmentation of the content: a quote or a backslash is a grapheme of its own -/
def segmented (g : G) : Prop :=
  (g.cls ≠ .quote ∧ g.cls ≠ .backslash) → ∀ c ∈ g.chars, c ≠ '"' ∧ c ≠ '\\'

end MechVerif.StrLit
