/-
C08 — Formatting a program does not change what it means.

The theorems cover formulas: the formatter's `term`/`factor` emitters print a tree as its
in-order sequence of operands and operators (Model: `fmt`), and the parser
(Model/Prec.lean `parseFormula`, proved in C02 to return the unique well-grouped tree of its
input) reads that sequence back; Model/Formula.lean extends this to the whole formula grammar at
token level (parentheses to any depth, prefix `-` and `!`, transpose, the two readings of `-`),
with both directions of the round trip; Model/Syntax.lean gives the operands their structure (literals,
names, calls, matrix literals, tuples, sets, subscripted names, ranges) and adds definitions,
assignments, op-assignments and whole programs, again with both directions.  For the rest of the
grammar the round trip is checked on the implementation directly (search, not proof).

String literals (Model/StrLit.lean): the scanner of `utf8_string` over grapheme classes and the
emitter `Formatter::string`; the content of a literal survives formatting and re-parsing.
-/
import MechVerif.Props.C02
import MechVerif.Lemmas.StrLit
import MechVerif.Lemmas.Syntax
namespace MechVerif.Prec

variable {α : Type}

/-- Formatting a parsed formula and parsing the text again gives the same tree — same
    structure of every sub-expression, same operators, same operands — with nothing left over. -/
theorem C08_formula_roundtrip (N : Nat) (a : α) (rest : Rest α) (h : OpsIn N rest) :
    let t := (parseFormula N a rest).1
    parseFormula N (fmt t).1 (fmt t).2 = (t, []) := by
  intro t
  have hin := C02_parse_inorder N a rest h
  have hall := C02_parse_consumes_all N a rest h
  simp only [fmt]
  have h1 : t.first = a := hin.1
  have h2 : t.tail = rest := hall.2
  rw [h1, h2]
  exact Prod.ext rfl hall.1

/-- Formatting the formatted text again gives the same text. -/
theorem C08_formula_idempotent (N : Nat) (a : α) (rest : Rest α) (h : OpsIn N rest) :
    let t := (parseFormula N a rest).1
    fmt (parseFormula N (fmt t).1 (fmt t).2).1 = fmt t := by
  intro t
  have := C08_formula_roundtrip N a rest h
  simp only at this
  rw [this]

/-- The text of a formula is its operands and operators in source order: formatting does not
    reorder, drop or add anything. -/
theorem C08_formula_text_is_source (N : Nat) (a : α) (rest : Rest α) (h : OpsIn N rest) :
    fmt (parseFormula N a rest).1 = (a, rest) := by
  have hin := C02_parse_inorder N a rest h
  have hall := C02_parse_consumes_all N a rest h
  simp only [fmt]
  exact Prod.ext hin.1 hall.2

end MechVerif.Prec

/-! ## formulas with parentheses, prefix operators and transposes (Model/Formula.lean) -/
namespace MechVerif.Formula
open MechVerif.Prec

/-- Formatting what was parsed gives back the text: whatever token text the formula parser accepts
    — any nesting, any operators, also texts like `-a''` — is exactly the rendering of the tree it
    returns followed by the input it left unread.  No hypothesis on the text. -/
theorem C08_nested_formula_text_is_source (g : Gram) (n : Nat) (ts : List Tok) (t : Trm) (r : List Tok)
    (h : pForm g n ts = some (t, r)) : rTrm g t ++ r = ts :=
  ((pr_all g n).2.2 ts t r h).symm

/-- Parsing the formatted text gives back the tree: the rendering of a canonical tree (inside every
    pair of parentheses the documented grouping; a transposed factor is an atom or parenthesised)
    is read as that tree, with nothing left over. -/
theorem C08_nested_formula_roundtrip (g : Gram) (t : Trm) (h : okT g t) (n : Nat) (hn : costT t + 2 ≤ n) :
    pForm g n (rTrm g t) = some (t, []) := by
  have := C02_nested_formula_parse g t h n hn [] (by intro t r e; cases e)
  simpa using this

/-- Formatting is idempotent on formulas: the text of the re-parsed tree is the text. -/
theorem C08_nested_formula_idempotent (g : Gram) (t : Trm) (h : okT g t) (n : Nat) (hn : costT t + 2 ≤ n) :
    (pForm g n (rTrm g t)).map (fun p => rTrm g p.1) = some (rTrm g t) := by
  rw [C08_nested_formula_roundtrip g t h n hn]; rfl

example : okT g7 demo := by
  simp [okT, okL, okF, WellGrouped, OpsIn, demo, Tree.ops, Tree.tail, Tree.first, Fac.isBase, g7, plus, times, pow]

end MechVerif.Formula

namespace MechVerif.StrLit

/-- A string literal round-trips: whatever the content (quotes, backslashes, letters that name an
    escape, line breaks, emoji — any graphemes `text` accepts), the characters the formatter
    writes for it are read back by the parser as the same content, and the input after the
    closing quote is untouched.  The second part ties the grapheme-level emitter to the
    character-level code of `Formatter::string`. -/
theorem C08_string_roundtrip (gs : List G) (h : ∀ g ∈ gs, okContent g ∧ segmented g) (rest : List G) :
    scan (escape gs ++ quoteG :: rest) = some (content gs, rest) ∧
    content (escape gs) = escapeChars (content gs) :=
  ⟨scan_escape gs (fun g hg => (h g hg).1) rest, content_escape gs h⟩

/-- Formatting again changes nothing: the text is a function of the content, and the content read
    back from the text is the content it was written from. -/
theorem C08_string_idempotent (gs : List G) (h : ∀ g ∈ gs, okContent g ∧ segmented g) (rest : List G) :
    ∀ cs r, scan (escape gs ++ quoteG :: rest) = some (cs, r) → escapeChars cs = escapeChars (content gs) := by
  intro cs r hs
  rw [(C08_string_roundtrip gs h rest).1] at hs
  cases hs; rfl

/-- Why the emitter must escape: written as it is, the content `a"b` is read back as `a`
    (the behaviour of the pinned commit before the `fix:` of the string emitter). -/
theorem C08_string_unescaped_is_cut :
    scan ([⟨.escapable, ['a']⟩, quoteG, ⟨.escapable, ['b']⟩] ++ [quoteG]) = some (['a'], [⟨.escapable, ['b']⟩, quoteG]) := by
  simp [scan, quoteG]

/-- a backslash before the closing quote would swallow it: `a\` written unescaped does not
    even end -/
theorem C08_string_unescaped_backslash_runs_on :
    scan ([⟨.escapable, ['a']⟩, backslashG] ++ [quoteG]) = none := by
  simp [scan, quoteG, backslashG]

example : okContent quoteG ∧ segmented quoteG := by
  unfold okContent segmented quoteG
  simp
example : okContent ⟨.escapable, ['n']⟩ ∧ segmented ⟨.escapable, ['n']⟩ := by
  unfold okContent segmented
  simp

end MechVerif.StrLit

/-! ## expressions with structured operands, statements, programs (Model/Syntax.lean) -/
namespace MechVerif.Syntax
open MechVerif.Prec

/-- Formatting what was parsed gives back the text, for whole programs: whatever token text the
    program parser accepts — definitions (mutable or not, with or without a kind annotation),
    assignments and op-assignments to names and subscripted names (chains of bracket and brace subscripts, field
    access by name or number, swizzles), over formulas whose operands are
    literals, names, calls with positional and named arguments, matrix literals, table literals, tuples, sets,
    records, maps,
    subscripted names, parenthesised formulas, prefixed and transposed operands, and ranges — is exactly the rendering of the statements it
    returns.  No hypothesis on the text. -/
theorem C08_program_text_is_source (g : Gram) (n : Nat) (ts : List Tok) (ss : List Stmt)
    (h : pProg g n ts = some ss) : rProg g ss = ts := (pProg_sound g n ts ss h).symm

/-- Parsing the formatted text gives back the tree, for whole programs: the rendering of canonical
    statements (inside every bracket and list element the documented grouping; rows and subscript
    lists not empty; a one-element tuple is not a bare formula; a transposed operand is not itself
    prefixed or transposed; a record has a binding; not every key of a map is a bare name; a table has a field
    and a row, no cell ends with a table, no operand that ends with a table is followed by the subtraction sign) is read as those statements, nothing left over. -/
theorem C08_program_roundtrip (g : Gram) (n : Nat) (ss : List Stmt) (hne : ss ≠ [])
    (h : ∀ s ∈ ss, costStmt s ≤ n ∧ okStmt g s) : pProg g n (rProg g ss) = some ss :=
  pProg_complete g n ss hne h

/-- Formatting the formatted program again gives the same text. -/
theorem C08_program_idempotent (g : Gram) (n : Nat) (ss : List Stmt) (hne : ss ≠ [])
    (h : ∀ s ∈ ss, costStmt s ≤ n ∧ okStmt g s) : (pProg g n (rProg g ss)).map (rProg g) = some (rProg g ss) := by
  rw [C08_program_roundtrip g n ss hne h]; rfl

/-- The same two directions for a single expression in any context that does not continue it
    (a separator, a closing bracket, a line break, the end of the text): `NoContE` asks that the next token is
    not an operator, a transpose mark, a bracket, dot or swizzle comma applying to the last name, a range operator,
    or the first token of an operand (after a table literal it would be read as another row). -/
theorem C08_expression_roundtrip (g : Gram) (n : Nat) (e : Exp) (hc : costE e ≤ n) (hok : okE g e) (rest : List Tok)
    (hrest : NoContE g rest) : pEx g n (rEx g e ++ rest) = some (e, rest) :=
  EClaim.strong (rt_all g n).2.2.2.1 e hc hok rest hrest

theorem C08_expression_text_is_source (g : Gram) (n : Nat) (ts : List Tok) (e : Exp) (r : List Tok)
    (h : pEx g n ts = some (e, r)) : rEx g e ++ r = ts := ((pr_all g n).2.2.2.1 ts e r h).symm

/-- `~x<k> := f([1 2; a' 3], n: -b..=c)`, `y[:, 1].c += {x.a[1].2.a,c,d{3}, (2, 3)}` `r := {p<k>: {1: x, a: 2}, q: {:}}` and
    `t := |a<k> b<k>| 1 x | -y 2 | + 1` -/
def demoProg : List Stmt :=
  [ .define true 0 (some 0)
      (.form (.leaf (.call 5 [.pos (.form (.leaf (.mat [[.form (.leaf (.lit 1)), .form (.leaf (.lit 2))],
                                                         [.form (.leaf (.tr (.var 1))), .form (.leaf (.lit 3))]]))),
                              .named 6 (.range (.leaf (.neg (.var 2))) true (.leaf (.var 3)))]))),
    .opAssign 4 [.bracket [.all, .ex (.form (.leaf (.lit 1)))], .dot 2] 0
      (.form (.leaf (.set [.form (.leaf (.slice 0 [.dot 1, .bracket [.ex (.form (.leaf (.lit 1)))], .dotInt 2, .swizzle 1 [2, 3],
                                                     .brace [.ex (.form (.leaf (.lit 3)))]])),
                           .form (.leaf (.tup [.form (.leaf (.lit 2)), .form (.leaf (.lit 3))]))]))),
    .define false 7 none
      (.form (.leaf (.recd [.mk 8 (some 1) (.form (.leaf (.map [.mk (.form (.leaf (.lit 1))) (.form (.leaf (.var 0))),
                                                                  .mk (.form (.leaf (.var 1))) (.form (.leaf (.lit 2)))]))),
                            .mk 9 none (.form (.leaf (.map [])))]))),
    .define false 10 none
      (.form (.node (.leaf (.tbl [(0, 0), (1, 1)] [[.form (.leaf (.lit 1)), .form (.leaf (.var 0))],
                                                    [.form (.leaf (.neg (.var 1))), .form (.leaf (.lit 2))]]))
                    ⟨9, 3⟩ (.leaf (.lit 1)))) ]

example : ∀ s ∈ demoProg, costStmt s ≤ 60 ∧ okStmt ⟨7, ⟨10, 3⟩⟩ s := by
  intro s hs
  simp only [demoProg, List.mem_cons, List.not_mem_nil, or_false] at hs
  rcases hs with h | h | h | h <;> subst h <;>
    simp [costStmt, okStmt, costE, costT, costF, costEs, costRows, costSubs, costSub, okE, okL, okF, okEs, okRows, okSubs, okSub,
      costArgs, costArg, costBinds, costBind, costMaps, costMapping, okArgs, okArg, okBinds, okBind, okMaps, okMapping,
      costSels, costSel, okSels, okSel, entM, allBind, lastOp, Fac.open, okTRows, Ex.lastOpen, WellGrouped, OpsIn, Tree.ops, Tree.tail, Tree.first, Fac.isBase]

/-- the demo program is read back from its rendering (the round trip, evaluated) -/
example : pProg ⟨7, ⟨10, 3⟩⟩ 60 (rProg ⟨7, ⟨10, 3⟩⟩ demoProg) = some demoProg := by
  apply C08_program_roundtrip
  · simp [demoProg]
  · intro s hs
    simp only [demoProg, List.mem_cons, List.not_mem_nil, or_false] at hs
    rcases hs with h | h | h | h <;> subst h <;>
      simp [costStmt, okStmt, costE, costT, costF, costEs, costRows, costSubs, costSub, okE, okL, okF, okEs, okRows, okSubs, okSub,
        costArgs, costArg, costBinds, costBind, costMaps, costMapping, okArgs, okArg, okBinds, okBind, okMaps, okMapping,
        costSels, costSel, okSels, okSel, entM, allBind, lastOp, Fac.open, okTRows, Ex.lastOpen, WellGrouped, OpsIn, Tree.ops, Tree.tail, Tree.first, Fac.isBase]

end MechVerif.Syntax
