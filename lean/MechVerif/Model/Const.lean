/-
Constant payloads: `ConstElem::write_le` / `from_le` of
src/core/src/program/compiler/constants.rs for the scalar kinds, strings and matrices
(rows, cols as u32, then the elements in column-major order, each in its own encoding).
-/
import MechVerif.Model.Bytecode
namespace MechVerif.Const
open MechVerif.Bytecode
open MechVerif.Crc (Byte)

/-- element kinds with their width in bytes (strings are length-prefixed) -/
inductive EK where
  | uint (w : Nat)        -- u8 u16 u32 u64 u128, index (w = 8)
  | sint (w : Nat)        -- i8 … i128
  | f32 | f64             -- bit patterns
  | bool
  | str
  | r64 | c64
deriving DecidableEq, Repr

inductive CV where
  | uint (w : Nat) (v : Nat)
  | sint (w : Nat) (v : Int)
  | f32 (bits : Nat) | f64 (bits : Nat)
  | bool (b : Bool)
  | str (bytes : List Byte)
  | r64 (n d : Int)
  | c64 (re im : Nat)
deriving DecidableEq, Repr

def CV.kind : CV → EK
  | .uint w _ => .uint w | .sint w _ => .sint w | .f32 _ => .f32 | .f64 _ => .f64
  | .bool _ => .bool | .str _ => .str | .r64 _ _ => .r64 | .c64 _ _ => .c64

/-- two's complement of `v` in `8w` bits -/
def toTwos (w : Nat) (v : Int) : Nat := (v % (256 ^ w : Nat)).toNat
def ofTwos (w : Nat) (n : Nat) : Int := if n < 256 ^ w / 2 then n else (n : Int) - (256 ^ w : Nat)

def CV.wf : CV → Prop
  | .uint w v => v < 256 ^ w
  | .sint w v => 0 < w ∧ -((256 ^ w / 2 : Nat) : Int) ≤ v ∧ v < ((256 ^ w / 2 : Nat) : Int)
  | .f32 b => b < 256 ^ 4 | .f64 b => b < 256 ^ 8
  | .bool _ => True
  | .str s => s.length < 256 ^ 4
  | .r64 n d => (-((256 ^ 8 / 2 : Nat) : Int) ≤ n ∧ n < ((256 ^ 8 / 2 : Nat) : Int)) ∧
                (-((256 ^ 8 / 2 : Nat) : Int) ≤ d ∧ d < ((256 ^ 8 / 2 : Nat) : Int))
  | .c64 re im => re < 256 ^ 8 ∧ im < 256 ^ 8

/-- `write_le` -/
def encode : CV → List Byte
  | .uint w v => leBytes w v
  | .sint w v => leBytes w (toTwos w v)
  | .f32 b => leBytes 4 b
  | .f64 b => leBytes 8 b
  | .bool b => [if b then 1#8 else 0#8]
  | .str s => leBytes 4 s.length ++ s
  | .r64 n d => leBytes 8 (toTwos 8 n) ++ leBytes 8 (toTwos 8 d)
  | .c64 re im => leBytes 8 re ++ leBytes 8 im

/-- `from_le` reading from the front of a buffer; returns the value and the rest -/
def decode (k : EK) (bs : List Byte) : Option (CV × List Byte) :=
  match k with
  | .uint w => (readLE w bs).map (fun p => (.uint w p.1, p.2))
  | .sint w => (readLE w bs).map (fun p => (.sint w (ofTwos w p.1), p.2))
  | .f32 => (readLE 4 bs).map (fun p => (.f32 p.1, p.2))
  | .f64 => (readLE 8 bs).map (fun p => (.f64 p.1, p.2))
  | .bool => (match bs with | b :: rest => some (.bool (b != 0#8), rest) | [] => none)
  | .str =>
    (match readLE 4 bs with
     | none => none
     | some (n, rest) => if rest.length < n then none else some (.str (rest.take n), rest.drop n))
  | .r64 =>
    (match readLE 8 bs with
     | none => none
     | some (n, r1) => (readLE 8 r1).map (fun p => (.r64 (ofTwos 8 n) (ofTwos 8 p.1), p.2)))
  | .c64 =>
    (match readLE 8 bs with
     | none => none
     | some (re, r1) => (readLE 8 r1).map (fun p => (.c64 re p.1, p.2)))

/-- a matrix payload -/
structure MatC where
  kind : EK
  rows : Nat
  cols : Nat
  data : List CV            -- column-major
deriving Repr

def MatC.wf (m : MatC) : Prop :=
  m.rows < 256 ^ 4 ∧ m.cols < 256 ^ 4 ∧ m.data.length = m.rows * m.cols ∧ ∀ v ∈ m.data, v.kind = m.kind ∧ v.wf

def encodeMat (m : MatC) : List Byte :=
  leBytes 4 m.rows ++ leBytes 4 m.cols ++ m.data.flatMap encode

/-- read `n` elements of kind `k` -/
def decodeN (k : EK) : Nat → List Byte → Option (List CV × List Byte)
  | 0, bs => some ([], bs)
  | n + 1, bs =>
    (match decode k bs with
     | none => none
     | some (v, rest) => match decodeN k n rest with | none => none | some (vs, rest') => some (v :: vs, rest'))

def decodeMat (k : EK) (bs : List Byte) : Option (MatC × List Byte) :=
  match readLE 4 bs with
  | none => none
  | some (rows, r1) =>
    match readLE 4 r1 with
    | none => none
    | some (cols, r2) => (decodeN k (rows * cols) r2).map (fun p => (⟨k, rows, cols, p.1⟩, p.2))

end MechVerif.Const
