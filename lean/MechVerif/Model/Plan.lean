/-
Re-evaluation (`Interpreter::step`, src/interpreter/src/interpreter.rs): every
evaluator pushes the function it solved onto the plan; `step(_, n)` solves every plan
function in order, n times.  Cells hold integers (f64 values); a plan step reads its
input cells and writes its output cell.
-/
import MechVerif.Model.Num
namespace MechVerif.Plan

inductive Op where
  | add | sub | mul
deriving DecidableEq, Repr

def Op.eval : Op → Int → Int → Int
  | .add, a, b => a + b
  | .sub, a, b => a - b
  | .mul, a, b => a * b

inductive PStep where
  | bin (op : Op) (a b out : Nat)     -- out := a op b
  | assign (target source : Nat)      -- target := source
  | addAssign (target source : Nat)   -- target := target + source
  | nop                               -- a definition: binds a name, computes nothing
deriving DecidableEq, Repr

abbrev Cells := List Int

def rd (c : Cells) (i : Nat) : Int := c.getD i 0

/-- `solve()` of one plan function -/
def PStep.run (c : Cells) : PStep → Cells
  | .bin op a b out => c.set out (op.eval (rd c a) (rd c b))
  | .assign t s => c.set t (rd c s)
  | .addAssign t s => c.set t (rd c t + rd c s)
  | .nop => c

/-- one pass over the plan -/
def runPlan (c : Cells) (plan : List PStep) : Cells := plan.foldl PStep.run c

/-- `step(_, n)`: n passes -/
def stepN (plan : List PStep) : Nat → Cells → Cells
  | 0, c => c
  | n + 1, c => stepN plan n (runPlan c plan)

/-! ### building the plan while evaluating a program -/

inductive Atom where
  | lit (v : Int)
  | var (x : String)
deriving DecidableEq, Repr

inductive Expr where
  | atom (a : Atom)
  | bin (op : Op) (a b : Atom)
deriving DecidableEq, Repr

inductive Stmt where
  | define (mutable : Bool) (n : String) (e : Expr)
  | assign (n : String) (e : Expr)
  | addAssign (n : String) (e : Expr)
deriving DecidableEq, Repr

structure St where
  cells : Cells
  syms : List (String × Nat)
  plan : List PStep
deriving Repr

def St.empty : St := ⟨[], [], []⟩

def St.lookup (s : St) (x : String) : Option Nat := (s.syms.find? (fun e => e.1 == x)).map (·.2)

/-- the cell of an atom: a literal gets a fresh constant cell, a variable its own cell -/
def evalAtom (s : St) : Atom → Option (St × Nat)
  | .lit v => some ({ s with cells := s.cells ++ [v] }, s.cells.length)
  | .var x => (s.lookup x).map (fun c => (s, c))

/-- evaluate an expression: solve the new function once and append it to the plan -/
def evalExpr (s : St) : Expr → Option (St × Nat)
  | .atom a => evalAtom s a
  | .bin op a b =>
    match evalAtom s a with
    | none => none
    | some (s1, ca) =>
      match evalAtom s1 b with
      | none => none
      | some (s2, cb) =>
        let out := s2.cells.length
        let st := PStep.bin op ca cb out
        some ({ s2 with cells := PStep.run (s2.cells ++ [0]) st, plan := s2.plan ++ [st] }, out)

def execStmt (s : St) : Stmt → Option St
  | .define _ n e =>
    if (s.lookup n).isSome then none else
    match evalExpr s e with
    | none => none
    | some (s1, c) => some { s1 with syms := s1.syms ++ [(n, c)], plan := s1.plan ++ [.nop] }
  | .assign n e =>
    match s.lookup n, evalExpr s e with
    | some t, some (s1, c) =>
      let st := PStep.assign t c
      some { s1 with cells := st.run s1.cells, plan := s1.plan ++ [st] }
    | _, _ => none
  | .addAssign n e =>
    match s.lookup n, evalExpr s e with
    | some t, some (s1, c) =>
      let st := PStep.addAssign t c
      some { s1 with cells := st.run s1.cells, plan := s1.plan ++ [st] }
    | _, _ => none

def execAll (s : St) : List Stmt → Option St
  | [] => some s
  | st :: rest =>
    match execStmt s st with
    | none => none
    | some s1 => execAll s1 rest

end MechVerif.Plan
