//! C03: indexed reads. Case: `index <kind> <M|r|c|data> <sel1> <sel2|-> `
//! selectors: s:<int>  vr:<i …>  vc:<i …>  g:<a>:<b>  a  br:<b …>  bc:<b …>  bm:<r>x<c>:<b …>
use crate::common::*;
use crate::interp::*;
use crate::c01::{operand_def, gen_operand, KINDS};
use mech_interpreter::*;

pub fn sel_src(s: &str) -> String {
  let p: Vec<&str> = s.splitn(2, ':').collect();
  match p[0] {
    "s" => p[1].to_string(),
    "vr" => format!("[{}]", p[1]),
    "vc" => format!("[{}]'", p[1]),
    "g" => { let q: Vec<&str> = p[1].split(':').collect(); format!("{}..={}", q[0], q[1]) }
    "a" => ":".to_string(),
    "br" => format!("[{}]", p[1]),
    "bc" => format!("[{}]'", p[1]),
    "bm" => {
      let (shape, body) = p[1].split_once(':').unwrap();
      let (r, c) = shape.split_once('x').unwrap();
      let (r, c): (usize, usize) = (r.parse().unwrap(), c.parse().unwrap());
      let els: Vec<&str> = body.split(' ').collect();
      let mut lit = String::from("[");
      for i in 0..r { if i > 0 { lit.push_str("; "); } for j in 0..c { if j > 0 { lit.push(' '); } lit.push_str(els[j * r + i]); } }
      lit.push(']');
      lit
    }
    _ => panic!("bad selector {}", s),
  }
}

pub fn index_expr(f: &[&str]) -> String {
  if f[4] == "-" { format!("m[{}]", sel_src(f[3])) } else { format!("m[{},{}]", sel_src(f[3]), sel_src(f[4])) }
}

/// selectors written in place, or (optional sixth field, one letter per selector: `l` in place, `v` a
/// variable, `m` a mutable variable) given a name first; `:` is always written in place
pub fn source(case: &str) -> String {
  let f: Vec<&str> = case.split('\t').collect();
  let forms: Vec<char> = if f.len() > 5 { f[5].chars().collect() } else { vec![] };
  let mut defs = operand_def("m", f[1], f[2], false);
  let mut sel = |name: &str, s: &str, i: usize| -> String {
    let c = forms.get(i).copied().unwrap_or('l');
    if c == 'l' || s == "a" { return sel_src(s); }
    defs.push_str(&format!("{}{} := {}\n", if c == 'm' { "~" } else { "" }, name, sel_src(s)));
    name.to_string() };
  let e = if f[4] == "-" { format!("m[{}]", sel("ia", f[3], 0)) } else { let a = sel("ia", f[3], 0); let b = sel("ib", f[4], 1); format!("m[{},{}]", a, b) };
  format!("{}{}", defs, e)
}

pub fn exec(case: &str) -> String {
  let f: Vec<&str> = case.split('\t').collect();
  let src = source(case);
  let tree = match parse_code(&src) { Ok(t) => t, Err(e) => return format!("harness:{}:{}", e, hexs(&src)) };
  let mut intrp = Interpreter::new(0);
  let r = std::panic::catch_unwind(std::panic::AssertUnwindSafe(|| intrp.interpret(&tree)));
  let obs = match r { Ok(Ok(v)) => canon(&v), Ok(Err(_)) => "err".to_string(), Err(_) => return "hostpanic".into() };
  // frame: the indexed variable must be unchanged afterwards
  let before = crate::c03::operand_canon(f[1], f[2]);
  let t2 = parse_code("m").unwrap();
  let after = match std::panic::catch_unwind(std::panic::AssertUnwindSafe(|| intrp.interpret(&t2))) {
    Ok(Ok(v)) => canon(&v), _ => "err".to_string() };
  if after != before { format!("{}#frame-changed:{}", obs, after) } else { obs }
}

/// canonical text of an operand given in case encoding
pub fn operand_canon(kind: &str, o: &str) -> String {
  let p: Vec<&str> = o.split('|').collect();
  if p[0] == "S" { format!("{}:{}", kind, p[1]) } else { format!("mat:{}:{}x{}:[{}]", kind, p[1], p[2], p[3]) }
}

fn pick_ix(rng: &mut Rng, n: usize, bad: &str) -> i64 {
  match bad { "zero" => 0, "over" => n as i64 + 1, "far" => n as i64 + 7, "neg" => -1, _ => rng.range(1, n as i64) }
}

/// one selector of class `class` for a dimension of extent `n`; `bad` chooses an out-of-range flavour
pub fn gen_sel(class: &str, n: usize, bad: &str, rng: &mut Rng) -> String {
  match class {
    "s" => format!("s:{}", pick_ix(rng, n, bad)),
    "vr" | "vc" | "v1" => {
      let len = if class == "v1" { 1 } else { 2 + rng.below(3) as usize };
      let mut v: Vec<i64> = (0..len).map(|_| rng.range(1, n as i64)).collect();
      if bad != "ok" { let k = rng.below(len as u64) as usize; v[k] = pick_ix(rng, n, bad).max(0); }
      format!("{}:{}", if class == "vc" { "vc" } else { "vr" }, v.iter().map(|x| x.to_string()).collect::<Vec<_>>().join(" "))
    }
    "g" | "g1" => {
      let a = rng.range(1, n as i64);
      let b = if class == "g1" { a } else { (a + rng.range(1, 3)).min(n as i64).max(a) };
      let (a, b) = match bad { "over" => (a, n as i64 + 1), "far" => (n as i64 + 2, n as i64 + 4), _ => (a, b) };
      format!("g:{}:{}", a, b)
    }
    "a" => "a".to_string(),
    "br" | "bc" | "b1" => {
      let len = match bad { "short" => n.saturating_sub(1).max(1), "long" => n + 1 + rng.below(2) as usize, _ => n };
      let len = if class == "b1" { 1 } else { len };
      let mut v: Vec<bool> = (0..len).map(|_| rng.chance(1, 2)).collect();
      if !v.iter().any(|x| *x) { v[0] = true; }
      format!("{}:{}", if class == "bc" { "bc" } else { "br" }, v.iter().map(|x| x.to_string()).collect::<Vec<_>>().join(" "))
    }
    _ => panic!("class"),
  }
}

pub const SEL_CLASSES: &[&str] = &["s", "vr", "vc", "v1", "g", "g1", "a", "br", "bc", "b1"];
pub const SHAPES: &[(usize, usize, &str)] = &[(1, 4, "RD"), (4, 1, "VD"), (1, 1, "MD1"), (3, 3, "MDsq"), (2, 4, "MDrect"), (4, 3, "MDtall")];

pub fn generate(seed: u64, thorough: bool, sink: &mut Sink) -> Vec<String> {
  let mut rng = Rng::new(seed);
  let mut cases = vec![];
  let kinds_quick = ["f64", "u8", "i32", "bool", "string", "r64", "f32", "u64", "i8", "c64", "u16", "u32", "u128", "i16", "i64", "i128"];
  let mut kind_rot = 0usize;
  for (rows, cols, sname) in SHAPES {
    let numel = rows * cols;
    // 1-D
    for c1 in SEL_CLASSES {
      for bad in ["ok", "ok", "zero", "over", "far", "neg", "short", "long"] {
        if (bad == "short" || bad == "long") && !c1.starts_with('b') { continue; }
        if ["zero", "over", "far", "neg"].contains(&bad) && (c1.starts_with('b') || *c1 == "a") { continue; }
        if bad == "neg" && *c1 != "s" { continue; }
        let nk = if thorough { 16 } else { 2 };
        for _ in 0..nk {
          let kind = kinds_quick[kind_rot % 16]; kind_rot += 1;
          let m = gen_operand(kind, *rows, *cols, false, &mut rng, 0);
          let s1 = gen_sel(c1, numel, bad, &mut rng);
          cases.push(format!("index\t{}\t{}\t{}\t-", kind, m, s1));
          sink.hit(&format!("1d:{}:{}:{}", sname, c1, bad));
        }
      }
    }
    // matrix-shaped mask
    for bad in ["ok", "long"] {
      let kind = kinds_quick[kind_rot % 16]; kind_rot += 1;
      let m = gen_operand(kind, *rows, *cols, false, &mut rng, 0);
      let (r, c) = if bad == "ok" { (*rows, *cols) } else { (*rows + 1, *cols) };
      let mut v: Vec<bool> = (0..r * c).map(|_| rng.chance(1, 2)).collect(); v[0] = true;
      cases.push(format!("index\t{}\t{}\tbm:{}x{}:{}\t-", kind, m, r, c, v.iter().map(|x| x.to_string()).collect::<Vec<_>>().join(" ")));
      sink.hit(&format!("1d:{}:bm:{}", sname, bad));
    }
    // 2-D
    for c1 in SEL_CLASSES { for c2 in SEL_CLASSES {
      for bad in ["ok", "ok", "bad1", "bad2"] {
        let kind = kinds_quick[kind_rot % 16]; kind_rot += 1;
        let m = gen_operand(kind, *rows, *cols, false, &mut rng, 0);
        let flavour = |class: &str, rng: &mut Rng| -> &'static str {
          if class.starts_with('b') { *rng.pick(&["short", "long"]) } else if class == "a" { "ok" } else { *rng.pick(&["zero", "over", "far"]) } };
        let b1 = if bad == "bad1" { flavour(c1, &mut rng) } else { "ok" };
        let b2 = if bad == "bad2" { flavour(c2, &mut rng) } else { "ok" };
        if (bad == "bad1" && b1 == "ok") || (bad == "bad2" && b2 == "ok") { continue; }
        let s1 = gen_sel(c1, *rows, b1, &mut rng);
        let s2 = gen_sel(c2, *cols, b2, &mut rng);
        cases.push(format!("index\t{}\t{}\t{}\t{}", kind, m, s1, s2));
        sink.hit(&format!("2d:{}:{}:{}:{}", sname, c1, c2, if bad.starts_with("bad") { "oob" } else { "ok" }));
      }
    }}
  }
  // how the selectors are written: half of the cases name them first (immutable or mutable variables)
  let mut frng = Rng::new(seed ^ 0x5e1ec7);
  for c in cases.iter_mut() {
    if frng.chance(1, 2) { sink.hit("selectors:in-place"); continue; }
    let forms: String = (0..2).map(|_| *frng.pick(&['l', 'v', 'v', 'm'])).collect();
    sink.hit(&format!("selectors:{}", forms));
    c.push('\t'); c.push_str(&forms);
  }
  sink.sample(cases[0].clone()); sink.sample(cases[cases.len() / 2].clone()); sink.sample(cases[cases.len() - 1].clone());
  cases
}
