/-
Scalar operators per element kind (machines/math/src/ops, machines/compare,
machines/logic at the scalar level), with the acceptance table read off the
`impl_*_fxn` kind lists.  Float arithmetic is a parameter (`FloatImpl`): the model says
which IEEE operation is applied to which operands, not what it returns.
-/
import MechVerif.Model.Num
namespace MechVerif.Scalar
open MechVerif.Num

inductive Kind where
  | int (k : IKind) | f32 | f64 | r64 | c64 | bool | string
deriving DecidableEq, Repr

inductive Val where
  | int (v : Int)
  | f64 (b : UInt64)
  | f32 (b : UInt32)
  | rat (n d : Int)            -- reduced, d > 0
  | cplx (re im : UInt64)      -- two f64 bit patterns
  | bool (b : Bool)
  | str (s : String)
deriving DecidableEq, Repr

inductive BinOp where
  | add | sub | mul | div | mod | pow | eq | ne | lt | le | gt | ge | and | or | xor
deriving DecidableEq, Repr

inductive UnOp where
  | neg | not
deriving DecidableEq, Repr

/-- the IEEE-754 operations the code applies (hardware / libm); a parameter of the model -/
structure FloatImpl where
  add64 : UInt64 → UInt64 → UInt64
  sub64 : UInt64 → UInt64 → UInt64
  mul64 : UInt64 → UInt64 → UInt64
  div64 : UInt64 → UInt64 → UInt64
  rem64 : UInt64 → UInt64 → UInt64
  pow64 : UInt64 → UInt64 → UInt64
  neg64 : UInt64 → UInt64
  lt64 : UInt64 → UInt64 → Bool
  le64 : UInt64 → UInt64 → Bool
  eq64 : UInt64 → UInt64 → Bool
  add32 : UInt32 → UInt32 → UInt32
  sub32 : UInt32 → UInt32 → UInt32
  mul32 : UInt32 → UInt32 → UInt32
  div32 : UInt32 → UInt32 → UInt32
  rem32 : UInt32 → UInt32 → UInt32
  pow32 : UInt32 → UInt32 → UInt32
  neg32 : UInt32 → UInt32
  lt32 : UInt32 → UInt32 → Bool
  le32 : UInt32 → UInt32 → Bool
  eq32 : UInt32 → UInt32 → Bool

def BinOp.isCompare : BinOp → Bool
  | .eq | .ne | .lt | .le | .gt | .ge => true
  | _ => false

/-- comparison from the three primitive relations -/
def cmp (op : BinOp) (lt eq : Bool) (gt : Bool) : Bool :=
  match op with
  | .eq => eq | .ne => !eq | .lt => lt | .le => lt || eq | .gt => gt | .ge => gt || eq
  | _ => false

/-- integer kinds: exact arithmetic, an unrepresentable result is an error -/
def intOp (k : IKind) (op : BinOp) (x y : Int) : Except Err Val :=
  match op with
  | .add => match checked k (x + y) with | .ok v => .ok (.int v) | .error e => .error e
  | .sub => match checked k (x - y) with | .ok v => .ok (.int v) | .error e => .error e
  | .mul => match checked k (x * y) with | .ok v => .ok (.int v) | .error e => .error e
  | .div => if y = 0 then .error .overflow else
            match checked k (Int.tdiv x y) with | .ok v => .ok (.int v) | .error e => .error e
  | .mod => if y = 0 then .error .overflow
            else if x = k.lo ∧ y = -1 ∧ k.signed then .error .overflow
            else .ok (.int (Int.tmod x y))
  | .pow => if k = .u8 ∨ k = .u16 ∨ k = .u32 then
              (if y < 0 then .error .overflow
               else if x = 0 then .ok (.int (if y = 0 then 1 else 0))
               else if x = 1 then .ok (.int 1)
               else if y > 128 then .error .overflow      -- 2^129 exceeds every kind
               else match checked k (x ^ y.toNat) with | .ok v => .ok (.int v) | .error e => .error e)
            else .error .kind
  | .eq | .ne | .lt | .le | .gt | .ge => .ok (.bool (cmp op (decide (x < y)) (decide (x = y)) (decide (x > y))))
  | .and | .or | .xor => .error .kind

def gcdNorm (n d : Int) : Int × Int :=
  let g : Int := (Int.gcd n d : Nat)
  if d < 0 then (-(n / g), -(d / g)) else (n / g, d / g)

def ratOp (op : BinOp) (n1 d1 n2 d2 : Int) : Except Err Val :=
  match op with
  | .add => let (n, d) := gcdNorm (n1 * d2 + n2 * d1) (d1 * d2); .ok (.rat n d)
  | .sub => let (n, d) := gcdNorm (n1 * d2 - n2 * d1) (d1 * d2); .ok (.rat n d)
  | .mul => let (n, d) := gcdNorm (n1 * n2) (d1 * d2); .ok (.rat n d)
  | .div => if n2 = 0 then .error .overflow else
            let (n, d) := gcdNorm (n1 * d2) (d1 * n2); .ok (.rat n d)
  | .eq | .ne | .lt | .le | .gt | .ge =>
    .ok (.bool (cmp op (decide (n1 * d2 < n2 * d1)) (decide (n1 * d2 = n2 * d1)) (decide (n1 * d2 > n2 * d1))))
  | _ => .error .kind

def f64Op (fi : FloatImpl) (op : BinOp) (x y : UInt64) : Except Err Val :=
  match op with
  | .add => .ok (.f64 (fi.add64 x y)) | .sub => .ok (.f64 (fi.sub64 x y))
  | .mul => .ok (.f64 (fi.mul64 x y)) | .div => .ok (.f64 (fi.div64 x y))
  | .mod => .ok (.f64 (fi.rem64 x y)) | .pow => .ok (.f64 (fi.pow64 x y))
  | .eq | .ne | .lt | .le | .gt | .ge => .ok (.bool (cmp op (fi.lt64 x y) (fi.eq64 x y) (fi.lt64 y x)))
  | _ => .error .kind

def f32Op (fi : FloatImpl) (op : BinOp) (x y : UInt32) : Except Err Val :=
  match op with
  | .add => .ok (.f32 (fi.add32 x y)) | .sub => .ok (.f32 (fi.sub32 x y))
  | .mul => .ok (.f32 (fi.mul32 x y)) | .div => .ok (.f32 (fi.div32 x y))
  | .mod => .ok (.f32 (fi.rem32 x y)) | .pow => .ok (.f32 (fi.pow32 x y))
  | .eq | .ne | .lt | .le | .gt | .ge => .ok (.bool (cmp op (fi.lt32 x y) (fi.eq32 x y) (fi.lt32 y x)))
  | _ => .error .kind

/-- complex numbers: the formulas of `num_complex`, over the f64 parameter operations -/
def cplxOp (fi : FloatImpl) (op : BinOp) (a b c d : UInt64) : Except Err Val :=
  match op with
  | .add => .ok (.cplx (fi.add64 a c) (fi.add64 b d))
  | .sub => .ok (.cplx (fi.sub64 a c) (fi.sub64 b d))
  | .mul => .ok (.cplx (fi.sub64 (fi.mul64 a c) (fi.mul64 b d)) (fi.add64 (fi.mul64 a d) (fi.mul64 b c)))
  | .div =>
    let ns := fi.add64 (fi.mul64 c c) (fi.mul64 d d)
    .ok (.cplx (fi.div64 (fi.add64 (fi.mul64 a c) (fi.mul64 b d)) ns)
               (fi.div64 (fi.sub64 (fi.mul64 b c) (fi.mul64 a d)) ns))
  | .eq => .ok (.bool (fi.eq64 a c && fi.eq64 b d))
  | .ne => .ok (.bool (!(fi.eq64 a c && fi.eq64 b d)))
  | _ => .error .kind     -- ordering by norm (libm hypot) is outside the model

def boolOp (op : BinOp) (x y : Bool) : Except Err Val :=
  match op with
  | .and => .ok (.bool (x && y)) | .or => .ok (.bool (x || y)) | .xor => .ok (.bool (x != y))
  | .eq => .ok (.bool (x == y)) | .ne => .ok (.bool (x != y))
  | _ => .error .kind

def strOp (op : BinOp) (x y : String) : Except Err Val :=
  match op with
  | .add => .ok (.str (x ++ y))
  | .eq => .ok (.bool (x == y)) | .ne => .ok (.bool (x != y))
  | _ => .error .kind

/-- `a op b` on two scalars of kind `k` -/
def scalarOp (fi : FloatImpl) (k : Kind) (op : BinOp) (a b : Val) : Except Err Val :=
  match k, a, b with
  | .int ik, .int x, .int y => intOp ik op x y
  | .f64, .f64 x, .f64 y => f64Op fi op x y
  | .f32, .f32 x, .f32 y => f32Op fi op x y
  | .r64, .rat n1 d1, .rat n2 d2 => ratOp op n1 d1 n2 d2
  | .c64, .cplx a b, .cplx c d => cplxOp fi op a b c d
  | .bool, .bool x, .bool y => boolOp op x y
  | .string, .str x, .str y => strOp op x y
  | _, _, _ => .error .kind

def scalarUnop (fi : FloatImpl) (k : Kind) (op : UnOp) (a : Val) : Except Err Val :=
  match op, k, a with
  | .neg, .int ik, .int x => if ik.signed then (match checked ik (-x) with | .ok v => .ok (.int v) | .error e => .error e) else .error .kind
  | .neg, .f64, .f64 x => .ok (.f64 (fi.neg64 x))
  | .neg, .f32, .f32 x => .ok (.f32 (fi.neg32 x))
  | .neg, .r64, .rat n d => .ok (.rat (-n) d)
  | .neg, .c64, .cplx a b => .ok (.cplx (fi.neg64 a) (fi.neg64 b))
  | .not, .bool, .bool x => .ok (.bool (!x))
  | _, _, _ => .error .kind

/-- the kind of the result -/
def resultKind (k : Kind) (op : BinOp) : Kind :=
  if op.isCompare || op == .and || op == .or || op == .xor then .bool else k

end MechVerif.Scalar
