//! Shared plumbing: PRNG, hex, case sink, statistics.
use std::collections::BTreeMap;
use std::fmt::Write as _;
use std::io::Write;

#[derive(Clone)]
pub struct Rng(pub u64);
impl Rng {
  pub fn new(seed: u64) -> Self { Rng(seed ^ 0x5DEECE66D) }
  pub fn next(&mut self) -> u64 {
    self.0 = self.0.wrapping_add(0x9E3779B97F4A7C15);
    let mut z = self.0;
    z = (z ^ (z >> 30)).wrapping_mul(0xBF58476D1CE4E5B9);
    z = (z ^ (z >> 27)).wrapping_mul(0x94D049BB133111EB);
    z ^ (z >> 31)
  }
  pub fn below(&mut self, n: u64) -> u64 { if n == 0 { 0 } else { self.next() % n } }
  pub fn range(&mut self, lo: i64, hi: i64) -> i64 { lo + self.below((hi - lo + 1) as u64) as i64 }
  pub fn chance(&mut self, num: u64, den: u64) -> bool { self.below(den) < num }
  pub fn pick<'a, T>(&mut self, xs: &'a [T]) -> &'a T { &xs[self.below(xs.len() as u64) as usize] }
  pub fn fork(&mut self) -> Rng { Rng(self.next()) }
}

pub fn hexs(s: &str) -> String { hexb(s.as_bytes()) }
pub fn hexb(b: &[u8]) -> String {
  if b.is_empty() { return "-".to_string(); }
  let mut o = String::with_capacity(b.len() * 2);
  for x in b { write!(o, "{:02x}", x).unwrap(); }
  o
}

/// Collects `case @@ observation` lines and class statistics.
pub struct Sink {
  pub lines: Vec<String>,
  pub stats: BTreeMap<String, u64>,
  pub samples: Vec<String>,
}
impl Sink {
  pub fn new() -> Self { Sink { lines: vec![], stats: BTreeMap::new(), samples: vec![] } }
  pub fn case(&mut self, case: String, obs: String) { self.lines.push(format!("{}\t@@\t{}", case, obs)); }
  pub fn hit(&mut self, class: &str) { *self.stats.entry(class.to_string()).or_insert(0) += 1; }
  pub fn sample(&mut self, s: String) { if self.samples.len() < 8 { self.samples.push(s); } }
  pub fn write(&self, outdir: &str) {
    std::fs::create_dir_all(outdir).unwrap();
    let mut f = std::io::BufWriter::new(std::fs::File::create(format!("{}/cases.txt", outdir)).unwrap());
    for l in &self.lines { writeln!(f, "{}", l).unwrap(); }
    let mut s = std::io::BufWriter::new(std::fs::File::create(format!("{}/stats.json", outdir)).unwrap());
    write!(s, "{{\"classes\":{{").unwrap();
    let mut first = true;
    for (k, v) in &self.stats {
      if !first { write!(s, ",").unwrap(); }
      first = false;
      write!(s, "{}:{}", json_str(k), v).unwrap();
    }
    write!(s, "}},\"samples\":[").unwrap();
    for (i, x) in self.samples.iter().enumerate() {
      if i > 0 { write!(s, ",").unwrap(); }
      write!(s, "{}", json_str(x)).unwrap();
    }
    writeln!(s, "]}}").unwrap();
  }
}

pub fn json_str(s: &str) -> String {
  let mut o = String::from("\"");
  for c in s.chars() {
    match c {
      '"' => o.push_str("\\\""),
      '\\' => o.push_str("\\\\"),
      '\n' => o.push_str("\\n"),
      '\r' => o.push_str("\\r"),
      '\t' => o.push_str("\\t"),
      c if (c as u32) < 0x20 => { write!(o, "\\u{:04x}", c as u32).unwrap(); }
      c => o.push(c),
    }
  }
  o.push('"');
  o
}

/// Run `f` on `items` with `threads` workers, preserving order of results.
pub fn par_map<T: Send + Sync, R: Send>(items: &[T], threads: usize, f: impl Fn(&T) -> R + Sync) -> Vec<R> {
  let n = items.len();
  let next = std::sync::atomic::AtomicUsize::new(0);
  let out: std::sync::Mutex<Vec<Option<R>>> = std::sync::Mutex::new((0..n).map(|_| None).collect());
  std::thread::scope(|s| {
    for _ in 0..threads.max(1) {
      s.spawn(|| {
        loop {
          let i = next.fetch_add(1, std::sync::atomic::Ordering::Relaxed);
          if i >= n { break; }
          let r = f(&items[i]);
          out.lock().unwrap()[i] = Some(r);
        }
      });
    }
  });
  out.into_inner().unwrap().into_iter().map(|x| x.unwrap()).collect()
}
