import MechVerif.Model.Crc
namespace MechVerif.Crc

theorem Z_zero : Z 0#32 = 0#32 := by decide

theorem lsb_xor (a b : BitVec 32) : lsb (a ^^^ b) = (lsb a ^^ lsb b) := by
  simp [lsb]

theorem Z_lin (a b : BitVec 32) : Z (a ^^^ b) = Z a ^^^ Z b := by
  unfold Z
  rw [lsb_xor]
  cases ha : lsb a <;> cases hb : lsb b <;>
    simp [BitVec.ushiftRight_xor_distrib]
  · ac_rfl
  · ac_rfl
  · rw [show a >>> 1 ^^^ POLY ^^^ (b >>> 1 ^^^ POLY) = (a >>> 1 ^^^ b >>> 1) ^^^ (POLY ^^^ POLY) by ac_rfl]
    simp

theorem getLsbD_shr1 (s : BitVec 32) (j : Nat) : (s >>> 1).getLsbD j = s.getLsbD (j+1) := by
  simp [BitVec.getLsbD_ushiftRight, Nat.add_comm]

theorem Z_inj0 (s : BitVec 32) (h : Z s = 0#32) : s = 0#32 := by
  unfold Z at h
  cases hs : lsb s
  · rw [hs] at h
    simp at h
    apply BitVec.eq_of_getLsbD_eq
    intro i hi
    cases i with
    | zero => simpa [lsb] using hs
    | succ j =>
      have := congrArg (fun v => v.getLsbD j) h
      simp only [getLsbD_shr1] at this
      simpa using this
  · rw [hs] at h
    simp at h
    have := congrArg (fun v => v.getLsbD 31) h
    simp only [BitVec.getLsbD_xor, getLsbD_shr1] at this
    simp [POLY] at this

def Zn : Nat → BitVec 32 → BitVec 32
  | 0, s => s
  | n+1, s => Zn n (Z s)

theorem Zn_zero (n : Nat) : Zn n 0#32 = 0#32 := by
  induction n with
  | zero => rfl
  | succ n ih => simp [Zn, Z_zero, ih]

theorem Zn_lin (n : Nat) (a b : BitVec 32) : Zn n (a ^^^ b) = Zn n a ^^^ Zn n b := by
  induction n generalizing a b with
  | zero => rfl
  | succ n ih => simp [Zn, Z_lin, ih]

theorem Zn_inj0 (n : Nat) (s : BitVec 32) (h : Zn n s = 0#32) : s = 0#32 := by
  induction n generalizing s with
  | zero => exact h
  | succ n ih => exact Z_inj0 s (ih (Z s) h)

theorem Zn_inj (n : Nat) (a b : BitVec 32) (h : Zn n a = Zn n b) : a = b := by
  have h0 : Zn n (a ^^^ b) = 0#32 := by rw [Zn_lin, h]; simp
  have := Zn_inj0 n _ h0
  have h2 : a ^^^ b ^^^ b = 0#32 ^^^ b := by rw [this]
  simpa [BitVec.xor_assoc] using h2

theorem Zn_Z (n : Nat) (s : BitVec 32) : Zn n (Z s) = Z (Zn n s) := by
  induction n generalizing s with
  | zero => rfl
  | succ n ih => simp [Zn, ih]

theorem Zn_add (m n : Nat) (s : BitVec 32) : Zn n (Zn m s) = Zn (m + n) s := by
  induction m generalizing s with
  | zero => simp [Zn]
  | succ m ih => rw [Nat.add_right_comm]; simp [Zn, ih]

def sel (b : Bool) (v : BitVec 32) : BitVec 32 := if b then v else 0#32

theorem Z_one : Z 1#32 = POLY := by decide

theorem step_eq (s : BitVec 32) (b : Bool) : step s b = Z s ^^^ sel b POLY := by
  cases b <;> simp [step, bit, sel, Z_lin, Z_one]

/-- shifting a single set bit back down: `Zn p (1 <<< p) = 1` for every p < 32 -/
theorem Zn_shift : ∀ p : Fin 32, Zn p.val (1#32 <<< p.val) = 1#32 := by decide +kernel

/-- value spelled by a bit list placed at positions p, p+1, … -/
def valOf : List Bool → Nat → BitVec 32
  | [], _ => 0#32
  | b :: bs, p => sel b (1#32 <<< p) ^^^ valOf bs (p + 1)

/-- feeding at most 32 bits: the register afterwards is the shifted xor of the old
    register and the value the bits spell -/
theorem feed (w : List Bool) : ∀ (p : Nat) (s : BitVec 32), p + w.length ≤ 32 →
    w.foldl step (Zn p s) = Zn (p + w.length) (s ^^^ valOf w p) := by
  induction w with
  | nil => intro p s _; simp [valOf]
  | cons b w ih =>
    intro p s hlen
    simp only [List.length_cons] at hlen
    simp only [List.foldl_cons, List.length_cons]
    have hp : p < 32 := by omega
    have h1 : step (Zn p s) b = Zn (p + 1) (s ^^^ sel b (1#32 <<< p)) := by
      rw [step_eq, Zn_lin]
      have hz : Zn (p + 1) s = Z (Zn p s) := by
        rw [← Zn_Z]; simp [Zn]
      rw [hz]
      congr 1
      cases b
      · simp [sel, Zn_zero]
      · simp only [sel, if_true]
        have := Zn_shift ⟨p, hp⟩
        simp only at this
        have h2 : Zn (p + 1) (1#32 <<< p) = Z (Zn p (1#32 <<< p)) := by
          rw [← Zn_Z]; simp [Zn]
        rw [h2, this, Z_one]
    rw [h1, ih (p + 1) _ (by omega)]
    congr 1
    · omega
    · simp [valOf, BitVec.xor_assoc]

theorem run_le32 (w : List Bool) (s : BitVec 32) (h : w.length ≤ 32) :
    run s w = Zn w.length (s ^^^ valOf w 0) := by
  have := feed w 0 s (by omega)
  simpa [run, Zn] using this

theorem run_zeros (s : BitVec 32) (n : Nat) : run s (List.replicate n false) = Zn n s := by
  induction n generalizing s with
  | zero => rfl
  | succ n ih =>
    simp only [List.replicate_succ, run, List.foldl_cons]
    have : step s false = Z s := by simp [step, bit]
    rw [this]; exact ih (Z s)

theorem run_append (s : BitVec 32) (u w : List Bool) : run s (u ++ w) = run (run s u) w := by
  simp [run, List.foldl_append]

theorem valOf_bit (w : List Bool) : ∀ (p j : Nat), p + w.length ≤ 32 →
    (valOf w p).getLsbD j = (decide (p ≤ j) && w.getD (j - p) false) := by
  induction w with
  | nil => intro p j _; simp [valOf]
  | cons b w ih =>
    intro p j hlen
    simp only [List.length_cons] at hlen
    simp only [valOf, BitVec.getLsbD_xor]
    rw [ih (p + 1) j (by omega)]
    have hsel : (sel b (1#32 <<< p)).getLsbD j = (b && decide (j = p)) := by
      cases b
      · simp [sel]
      · simp only [sel, if_true, Bool.true_and]
        by_cases hj : j = p
        · subst hj; simp [BitVec.getLsbD_shiftLeft]; omega
        · simp only [BitVec.getLsbD_shiftLeft, hj, decide_false]
          by_cases hlt : j < p
          · simp [hlt]
          · have : j - p ≠ 0 := by omega
            cases hjp : j - p with
            | zero => omega
            | succ k => simp [BitVec.getLsbD_one]
    rw [hsel]
    by_cases hj : j = p
    · subst hj
      have : ¬ j + 1 ≤ j := by omega
      simp [this]
    · by_cases hlt : j < p
      · have h1 : ¬ p ≤ j := by omega
        have h2 : ¬ p + 1 ≤ j := by omega
        simp [hj, h1, h2]
      · have h1 : p ≤ j := by omega
        have h2 : p + 1 ≤ j := by omega
        have h3 : j - p = (j - (p + 1)) + 1 := by omega
        simp [hj, h1, h2, h3]

/-- an error pattern confined to 32 consecutive bits never leaves the zero register at zero -/
theorem window_nonzero (a b : Nat) (w : List Bool) (hw : w.length ≤ 31) :
    run 0#32 (List.replicate a false ++ (true :: w) ++ List.replicate b false) ≠ 0#32 := by
  intro h
  rw [run_append, run_append, run_zeros 0#32 a, Zn_zero, run_zeros] at h
  have h1 := Zn_inj0 _ _ h
  rw [run_le32 _ _ (by simp; omega)] at h1
  have h2 := Zn_inj0 _ _ h1
  have h3 := congrArg (fun v => v.getLsbD 0) h2
  simp only [BitVec.getLsbD_xor] at h3
  rw [valOf_bit _ 0 0 (by simp; omega)] at h3
  simp at h3

/-! ### linearity over message xor -/

def xorBits (u w : List Bool) : List Bool := List.zipWith (· ^^ ·) u w

theorem bit_xor (x y : Bool) : bit (x ^^ y) = bit x ^^^ bit y := by
  cases x <;> cases y <;> simp [bit]

theorem step_lin (a b : BitVec 32) (x y : Bool) :
    step (a ^^^ b) (x ^^ y) = step a x ^^^ step b y := by
  simp only [step, bit_xor, ← Z_lin]
  congr 1
  ac_rfl

theorem run_lin : ∀ (u w : List Bool) (a b : BitVec 32), u.length = w.length →
    run (a ^^^ b) (xorBits u w) = run a u ^^^ run b w := by
  intro u
  induction u with
  | nil => intro w a b h; cases w <;> simp_all [run, xorBits]
  | cons x u ih =>
    intro w a b h
    cases w with
    | nil => simp at h
    | cons y w =>
      simp only [List.length_cons, Nat.add_right_cancel_iff] at h
      have := ih w (step a x) (step b y) h
      simpa [run, xorBits, step_lin] using this

/-! ### bytes, trailer and residue -/

def bits32 (v : BitVec 32) : List Bool := (List.range 32).map v.getLsbD

theorem valOf_bits32 (v : BitVec 32) : valOf (bits32 v) 0 = v := by
  apply BitVec.eq_of_getLsbD_eq
  intro j hj
  rw [valOf_bit _ 0 j (by simp [bits32])]
  simp only [Nat.zero_le, decide_true, Bool.true_and, Nat.sub_zero]
  simp [bits32, List.getD_eq_getElem?_getD, hj]

theorem bits32_length (v : BitVec 32) : (bits32 v).length = 32 := by simp [bits32]

theorem run_bits32 (s v : BitVec 32) : run s (bits32 v) = Zn 32 (s ^^^ v) := by
  rw [run_le32 _ _ (by simp [bits32]), valOf_bits32, bits32_length]

theorem bits_le32 (b0 b1 b2 b3 : Byte) :
    bitsOfBytes [b0, b1, b2, b3] = bits32 (le32 b0 b1 b2 b3) := by
  simp only [bitsOfBytes, List.flatMap_cons, List.flatMap_nil, List.append_nil, byteBits,
    bits32, le32]
  simp [List.range_succ]
  repeat' constructor
  all_goals (repeat (first | rfl | (rw [BitVec.getElem_append]; simp)))

theorem bitsOfBytes_append (f g : List Byte) :
    bitsOfBytes (f ++ g) = bitsOfBytes f ++ bitsOfBytes g := by
  simp [bitsOfBytes]

theorem bitsOfBytes_length (f : List Byte) : (bitsOfBytes f).length = 8 * f.length := by
  induction f with
  | nil => rfl
  | cons x f ih => simp [bitsOfBytes, byteBits] at *; omega

/-- the register value every well-formed file leaves behind -/
def RESIDUE : BitVec 32 := Zn 32 ONES

theorem xor_ones_eq (r t : BitVec 32) : (r ^^^ ONES == t) = (r ^^^ t == ONES) := by
  have hiff : (r ^^^ ONES = t) ↔ (r ^^^ t = ONES) := by
    constructor
    · intro h; rw [← h]; simp [← BitVec.xor_assoc]
    · intro h; rw [← h]; simp [← BitVec.xor_assoc]
  rw [Bool.eq_iff_iff]
  simp only [beq_iff_eq]
  exact hiff

/-- a file passes `verify` exactly when running the whole file (payload and trailer)
    through the register ends in `RESIDUE` -/
theorem verifies_iff (f : List Byte) (h4 : 4 ≤ f.length) :
    verifies f = true ↔ run ONES (bitsOfBytes f) = RESIDUE := by
  unfold verifies verify
  have hlt : ¬ f.length < 4 := by omega
  simp only [hlt, if_false]
  have hsplit : f = f.take (f.length - 4) ++ f.drop (f.length - 4) := (List.take_append_drop _ _).symm
  have hdl : (f.drop (f.length - 4)).length = 4 := by simp; omega
  match hd : f.drop (f.length - 4), hdl with
  | [b0, b1, b2, b3], _ =>
    simp only
    have hrun : run ONES (bitsOfBytes f) =
        Zn 32 (run ONES (bitsOfBytes (f.take (f.length - 4))) ^^^ le32 b0 b1 b2 b3) := by
      conv => lhs; rw [hsplit, hd]
      rw [bitsOfBytes_append, run_append, bits_le32, run_bits32]
    rw [hrun]
    unfold crc32 RESIDUE
    rw [xor_ones_eq]
    by_cases hc : (run ONES (bitsOfBytes (f.take (f.length - 4))) ^^^ le32 b0 b1 b2 b3 == ONES) = true
    · simp only [hc, if_true, true_iff]
      rw [eq_of_beq hc]
    · simp only [hc]
      constructor
      · intro h; simp at h
      · intro h
        have := Zn_inj _ _ _ h
        simp [this] at hc

end MechVerif.Crc
