/-
The acceptance tables of the two conversion routines, as functions of the (source kind, target kind) pair, and the
names under which the kinds appear in the source.  `Lemmas/ConvertTable.lean` proves that these functions say exactly
when `convertScalarImpl` / `convertElemImpl` of `Model/Convert.lean` answer `UnsupportedConversion`;
`Gen/ConvertTables.lean` (regenerated from /repo on every run) proves that they are the tables written in
`ValueKind::is_convertible_to`, `impl_conversion_match_arms!` and `impl_conversion_mat_to_mat_fxn!`.
-/
import MechVerif.Model.Convert
namespace MechVerif.Convert
open MechVerif.Num MechVerif.Scalar

/-- the sixteen scalar kinds of the model -/
def allKinds : List Kind := IKind.all.map .int ++ [.f32, .f64, .r64, .c64, .bool, .string]

end MechVerif.Convert

namespace MechVerif.Scalar
open MechVerif.Num

/-- the `ValueKind` / `Value` variant of a kind -/
def Kind.variantName : Kind → String
  | .int .u8 => "U8" | .int .u16 => "U16" | .int .u32 => "U32" | .int .u64 => "U64" | .int .u128 => "U128"
  | .int .i8 => "I8" | .int .i16 => "I16" | .int .i32 => "I32" | .int .i64 => "I64" | .int .i128 => "I128"
  | .f32 => "F32" | .f64 => "F64" | .r64 => "R64" | .c64 => "C64" | .bool => "Bool" | .string => "String"

/-- the Rust type of a kind's values, as the conversion macros name it -/
def Kind.rustType : Kind → String
  | .int k => k.name
  | .f32 => "f32" | .f64 => "f64" | .r64 => "R64" | .c64 => "C64" | .bool => "bool" | .string => "String"

end MechVerif.Scalar

namespace MechVerif.Convert
open MechVerif.Num MechVerif.Scalar

def isNumeric : Kind → Bool
  | .int _ | .f32 | .f64 => true
  | _ => false

/-- does the value have the representation of the kind -/
def valOfKind : Kind → Val → Bool
  | .int _, .int _ | .f64, .f64 _ | .f32, .f32 _ | .r64, .rat _ _ | .c64, .cplx _ _ | .bool, .bool _ | .string, .str _ => true
  | _, _ => false

/-- the pairs `convertScalar` has an arm for -/
def convertAccepts (k1 k2 : Kind) : Bool :=
  (isNumeric k1 && (isNumeric k2 || k2 == .string)) ||
  (k1 == .f64 && k2 == .r64) ||
  (k1 == .r64 && (k2 == .f64 || k2 == .r64 || k2 == .string)) ||
  (k1 == .bool && (k2 == .bool || k2 == .string)) ||
  (k1 == .string && k2 == .string) ||
  (k1 == .c64 && k2 == .c64)

/-- kind annotation of a scalar as implemented (`ConvertKind`, scalar.rs) -/
def scalarAccepts (k1 k2 : Kind) : Bool := convertAccepts k1 k2 && !scalarIdentityGap k1 k2

/-- kind annotation of a matrix as implemented (`ConvertMatToMat`, mat_to_mat.rs) -/
def matAccepts (k1 k2 : Kind) : Bool := (convertAccepts k1 k2 || matExtra k1 k2) && !matMissing k1 k2

/-- the one pair of the matrix table the model leaves out (formatting of complex numbers; not generated either) -/
def matNotModelled (k1 k2 : Kind) : Bool := k1 == .c64 && k2 == .string

/-- `ValueKind::is_convertible_to` on scalar kinds (the test in front of `Value::convert_to`, used by the option
    kinds, matrix-to-set and matrix-to-table conversions and the operators' fallback): an integer converts to every
    strictly wider integer kind whatever the signs, integers and floats convert to each other, the two float kinds to
    each other, and every kind to itself.  Same-width and narrowing integer pairs (`u8 → i8`, `u16 → u8`) are not in it
    although the kind annotation accepts them. -/
def implicitlyConvertible : Kind → Kind → Bool
  | .int a, .int b => a == b || decide (a.bits < b.bits)
  | .int _, .f32 | .int _, .f64 | .f32, .int _ | .f64, .int _ | .f32, .f64 | .f64, .f32 => true
  | a, b => a == b

/-- do two acceptance functions agree on all 16 × 16 ordered pairs of kinds -/
def tableAgrees (f g : Kind → Kind → Bool) : Bool := allKinds.all (fun a => allKinds.all (fun b => f a b == g a b))

def variantNames : List String := allKinds.map Kind.variantName
def rustTypes : List String := allKinds.map Kind.rustType

/-- a pair of `is_convertible_to` is between two kinds of the model, or involves `Index` (outside the model) -/
def variantPairKnown (p : String × String) : Bool :=
  (variantNames.contains p.1 && variantNames.contains p.2) ||
  ((p.1 == "Index" && isNumericName p.2) || (p.2 == "Index" && isNumericName p.1))
where isNumericName (s : String) : Bool := (allKinds.filter isNumeric).any (fun k => k.variantName == s)

def rustPairKnown (p : String × String) : Bool := rustTypes.contains p.1 && rustTypes.contains p.2
def explicitArmKnown (p : String × String) : Bool := variantNames.contains p.1 && variantNames.contains p.2

end MechVerif.Convert
