//! C14: sets. Case: `set <op> <mode> <args…>`; element lists are `,`-joined elements in written
//! (insertion) order, `-` for the empty list. Elements: canonical scalars (`f64:<bits>`, `u8:3`,
//! `i64:5`, `r64:2/4` as written, `string:<hex>`, `bool:true`), `tup:(a;b)`, `S(a;b)` inner set.
//! Observation: canonical value | `err`.
use crate::common::*;
use crate::interp::*;

fn atom_src(a: &str) -> String {
  let (k, v) = a.split_once(':').unwrap();
  match k {
    "f64" => { let x = f64::from_bits(u64::from_str_radix(v, 16).unwrap());
               if x.fract() == 0.0 && x.abs() < 1e15 { format!("{:.1}", x) } else { format!("{}", x) } }
    "i64" => format!("0x{:x}", v.parse::<i64>().unwrap()),
    "r64" => v.to_string(),
    "string" => format!("\"{}\"", String::from_utf8(crate::c07::unhex(v)).unwrap()),
    "bool" => v.to_string(),
    _ => format!("{}{}", v, k),
  }
}

fn split_top(s: &str, sep: char) -> Vec<String> {
  let mut out = vec![]; let mut depth = 0; let mut cur = String::new();
  for c in s.chars() {
    if c == '(' { depth += 1; } else if c == ')' { depth -= 1; }
    if c == sep && depth == 0 { out.push(cur.clone()); cur.clear(); } else { cur.push(c); }
  }
  out.push(cur); out
}

fn elem_src(e: &str) -> String {
  if let Some(r) = e.strip_prefix("tup:(") { let inner = &r[..r.len() - 1]; format!("({})", split_top(inner, ';').iter().map(|x| atom_src(x)).collect::<Vec<_>>().join(", ")) }
  else if let Some(r) = e.strip_prefix("S(") { let inner = &r[..r.len() - 1]; if inner.is_empty() { "{}".into() } else { format!("{{{}}}", split_top(inner, ';').iter().map(|x| atom_src(x)).collect::<Vec<_>>().join(", ")) } }
  else { atom_src(e) }
}

fn set_src(l: &str) -> String {
  if l == "-" { return "{}".into(); }
  format!("{{{}}}", split_top(l, ',').iter().map(|e| elem_src(e)).collect::<Vec<_>>().join(", "))
}

pub fn source(case: &str) -> String {
  let f: Vec<&str> = case.split('\t').collect();
  let op = f[1]; let var = f[2] == "v";
  // modes: `v` both operands through variables, `l` only the left, `r` only the right, `i` both written inline
  let bin = |sym: &str| -> String {
    match f[2] {
      "v" => format!("sa := {}\nsb := {}\nsa {} sb", set_src(f[3]), set_src(f[4]), sym),
      "l" => format!("sa := {}\nsa {} {}", set_src(f[3]), sym, set_src(f[4])),
      "r" => format!("sb := {}\n{} {} sb", set_src(f[4]), set_src(f[3]), sym),
      _ => format!("{} {} {}", set_src(f[3]), sym, set_src(f[4])) } };
  match op {
    "lit" => set_src(f[3]),
    "union" => bin("∪"), "inter" => bin("∩"), "diff" => bin("∖"), "symdiff" => bin("Δ"),
    "subset" => bin("⊆"), "psubset" => bin("⊊"), "superset" => bin("⊇"), "psuperset" => bin("⊋"),
    "elem" => match f[2] {
      "v" => format!("xe := {}\nsa := {}\nxe ∈ sa", elem_src(f[3]), set_src(f[4])),
      "l" => format!("xe := {}\nxe ∈ {}", elem_src(f[3]), set_src(f[4])),
      "r" => format!("sa := {}\n{} ∈ sa", set_src(f[4]), elem_src(f[3])),
      _ => format!("{} ∈ {}", elem_src(f[3]), set_src(f[4])) },
    "notelem" => match f[2] {
      "v" => format!("xe := {}\nsa := {}\nxe ∉ sa", elem_src(f[3]), set_src(f[4])),
      "l" => format!("xe := {}\nxe ∉ {}", elem_src(f[3]), set_src(f[4])),
      "r" => format!("sa := {}\n{} ∉ sa", set_src(f[4]), elem_src(f[3])),
      _ => format!("{} ∉ {}", elem_src(f[3]), set_src(f[4])) },
    "size" => if var || f[2] == "l" { format!("sa := {}\nset/size(sa)", set_src(f[3])) } else { format!("set/size({})", set_src(f[3])) },
    "frommat" => { // kind rows cols data(column-major, `,`-joined)
      let kind = f[3]; let rows: usize = f[4].parse().unwrap(); let cols: usize = f[5].parse().unwrap();
      let els = split_top(f[6], ',');
      let mut lit = String::from("[");
      for i in 0..rows { if i > 0 { lit.push_str("; "); } for j in 0..cols { if j > 0 { lit.push(' '); } lit.push_str(&atom_src(&els[j * rows + i])); } }
      lit.push(']');
      if var { format!("m := {}\ns<{{{}}}> := m", lit, kind) } else { format!("s<{{{}}}> := {}", kind, lit) } }
    // { y OP d | y <- A, y CMP c }
    "c1" => format!("{{ y {} {} | y <- {}, y {} {} }}", f[4], f[5], set_src(f[3]), f[6], f[7]),
    // { (y, z) | y <- A, z <- B }
    "c2" => format!("{{ (y, z) | y <- {}, z <- {} }}", set_src(f[3]), set_src(f[4])),
    // { y + z | y <- A, z <- B, y CMP z }
    "c3" => format!("{{ y + z | y <- {}, z <- {}, y {} z }}", set_src(f[3]), set_src(f[4]), f[5]),
    // { (p, r) | (p, q) <- P, (q, r) <- Q }
    "c4" => if var { format!("sp := {}\nsq := {}\n{{ (p, r) | (p, q) <- sp, (q, r) <- sq }}", set_src(f[3]), set_src(f[4])) } else { format!("{{ (p, r) | (p, q) <- {}, (q, r) <- {} }}", set_src(f[3]), set_src(f[4])) },
    _ => panic!("bad op {}", op),
  }
}

pub fn exec(case: &str) -> String {
  let src = source(case);
  match eval(&src) {
    Ok(v) => canon(&v),
    Err(e) => if e == "hostpanic" || e == "notcode" || e == "parseerr" || e == "parsepanic" { format!("harness:{}:{}", e, hexs(&src)) } else { "err".to_string() },
  }
}

fn f(x: f64) -> String { format!("f64:{:016x}", x.to_bits()) }

/// the universe of one element kind
fn universe(kind: &str) -> Vec<String> {
  match kind {
    "f64" => vec![f(0.0), f(1.0), f(2.0), f(3.0), f(2.5), f(-1.0), f(-0.0), f(100.0)],
    "u8" => (0..6).map(|i| format!("u8:{}", i)).collect(),
    "u16" => (0..6).map(|i| format!("u16:{}", i * 1000)).collect(),
    "u64" => (0..5).map(|i| format!("u64:{}", i)).collect(),
    "i64" => (0..6).map(|i| format!("i64:{}", i)).collect(),
    "r64" => vec!["r64:1/2", "r64:2/4", "r64:3/4", "r64:1/3", "r64:2/6", "r64:2/1", "r64:4/2", "r64:0/3"].iter().map(|s| s.to_string()).collect(),
    "string" => vec!["a", "b", "c", "ab", "ba", ""].iter().map(|s| format!("string:{}", hexs(s))).collect(),
    "bool" => vec!["bool:true".into(), "bool:false".into()],
    "tup" => { let mut v = vec![]; for a in [0.0, 1.0, 2.0, -0.0] { for b in [1.0, 2.0] { v.push(format!("tup:({};{})", f(a), f(b))); } } v }
    "tup-mixed" => { let mut v = vec![]; for a in [1.0, 2.0] { for b in ["a", "b"] { v.push(format!("tup:({};string:{})", f(a), hexs(b))); } } v }
    "set2" => { let mut v = vec![]; for a in [1.0, 2.0, 3.0] { for b in [1.0, 2.0, 3.0] { if a != b { v.push(format!("S({};{})", f(a), f(b))); } } } v }
    "set1" => vec![format!("S({})", f(1.0)), format!("S({})", f(2.0)), format!("S({})", f(0.0)), format!("S({})", f(-0.0))],
    "setstr" => { let mut v = vec![]; for a in ["a", "b", "c"] { for b in ["a", "b", "c"] { if a != b { v.push(format!("S(string:{};string:{})", hexs(a), hexs(b))); } } } v }
    _ => panic!(),
  }
}

pub const EKINDS: [&str; 13] = ["f64", "u8", "u16", "u64", "i64", "r64", "string", "bool", "tup", "tup-mixed", "set2", "set1", "setstr"];

fn pick_list(rng: &mut Rng, uni: &[String], max: usize) -> String {
  let n = rng.below(max as u64 + 1) as usize;
  if n == 0 { return "-".into(); }
  (0..n).map(|_| rng.pick(uni).clone()).collect::<Vec<_>>().join(",")
}

fn small(rng: &mut Rng, max: usize) -> String {
  let n = rng.below(max as u64 + 1) as usize;
  if n == 0 { return "-".into(); }
  (0..n).map(|_| f(rng.range(0, 5) as f64)).collect::<Vec<_>>().join(",")
}

pub fn generate(seed: u64, thorough: bool, sink: &mut Sink) -> Vec<String> {
  let mut rng = Rng::new(seed);
  let mut cases = vec![];
  let n = if thorough { 60000 } else { 3000 };
  let max = 6;
  let ops = ["lit", "union", "inter", "diff", "symdiff", "subset", "psubset", "superset", "psuperset", "elem", "notelem", "size"];
  for it in 0..n {
    let kind = EKINDS[it % EKINDS.len()];
    let uni = universe(kind);
    let op = ops[(it / EKINDS.len()) % ops.len()];
    let mode = *rng.pick(&["v", "i", "i", "l", "r", "i"]);
    // a second operand of another kind now and then (kind mismatch paths)
    let other = rng.chance(1, 12);
    let uni_b = if other { universe(EKINDS[rng.below(EKINDS.len() as u64) as usize]) } else { uni.clone() };
    let a = pick_list(&mut rng, &uni, max);
    // operands that are related: b is often a shuffled sub/superset of a
    let b = match rng.below(4) {
      0 if a != "-" && !other => { let mut els = split_top(&a, ','); for i in (1..els.len()).rev() { let j = rng.below(i as u64 + 1) as usize; els.swap(i, j); }
             if rng.chance(1, 2) && els.len() > 1 { els.pop(); } else if rng.chance(1, 2) { els.push(rng.pick(&uni).clone()); } els.join(",") }
      _ => pick_list(&mut rng, &uni_b, max),
    };
    let case = match op {
      "lit" => { let l = if other && a != "-" && b != "-" { format!("{},{}", a, b) } else { a.clone() }; format!("set\tlit\t{}\t{}", mode, l) }
      "size" => format!("set\tsize\t{}\t{}", mode, a),
      "elem" | "notelem" => { let x = rng.pick(&uni_b).clone(); format!("set\t{}\t{}\t{}\t{}", op, mode, x, a) }
      _ => format!("set\t{}\t{}\t{}\t{}", op, mode, a, b),
    };
    sink.hit(&format!("op:{}", op)); sink.hit(&format!("kind:{}", kind)); sink.hit(&format!("operands:{}", mode)); if other { sink.hit("mixed-kinds"); }
    if cases.len() < 3 { sink.sample(source(&case)); }
    cases.push(case);
  }
  // conversions from matrices
  for _ in 0..n / 10 {
    let kind = *rng.pick(&["f64", "u8", "u64"]);
    let uni = universe(kind);
    let rows = 1 + rng.below(3) as usize; let cols = 1 + rng.below(4) as usize;
    let data: Vec<String> = (0..rows * cols).map(|_| rng.pick(&uni).clone()).collect();
    let mode = if rng.chance(1, 2) { "v" } else { "i" };
    cases.push(format!("set\tfrommat\t{}\t{}\t{}\t{}\t{}", mode, kind, rows, cols, data.join(",")));
    sink.hit("op:frommat");
  }
  // comprehensions
  for _ in 0..n / 5 {
    let mode = if rng.chance(1, 3) { "v" } else { "i" };
    match rng.below(4) {
      0 => { let a = small(&mut rng, max); let op = *rng.pick(&["+", "*", "-"]); let d = rng.range(0, 3); let cmp = *rng.pick(&[">", "<", "!=", "==", ">=", "<="]); let c = rng.range(0, 5);
             cases.push(format!("set\tc1\ti\t{}\t{}\t{}\t{}\t{}", a, op, d, cmp, c)); sink.hit("op:comprehension-1gen-filter"); }
      1 => { let a = small(&mut rng, 4); let b = small(&mut rng, 4); cases.push(format!("set\tc2\ti\t{}\t{}", a, b)); sink.hit("op:comprehension-2gen"); }
      2 => { let a = small(&mut rng, 4); let b = small(&mut rng, 4); let cmp = *rng.pick(&[">", "<", "!=", "=="]); cases.push(format!("set\tc3\ti\t{}\t{}\t{}", a, b, cmp)); sink.hit("op:comprehension-2gen-filter"); }
      _ => { let mut pairs = |rng: &mut Rng| -> String { let n = 1 + rng.below(5) as usize; (0..n).map(|_| format!("tup:({};{})", f(rng.range(0, 3) as f64), f(rng.range(0, 3) as f64))).collect::<Vec<_>>().join(",") };
             let p = pairs(&mut rng); let q = pairs(&mut rng); cases.push(format!("set\tc4\t{}\t{}\t{}", mode, p, q)); sink.hit("op:comprehension-join"); }
    }
  }
  cases
}
