//! C12: kind conversion and reshape.
//!  conv <k1> <k2> <operand of k1>      : x<k1> := …; y<k2> := x
//!  reshape <k1> <operand> <r> <c> <k2> : y<[k2]:r,c> := x
//!  toset <k> <M operand>               : y<{k}> := x
//!  toset2 <k1> <k2> <M operand of k1>  : y<{k2}> := x                (elements converted, then made distinct)
//!  convopt <k1> <k2> <S operand of k1> : x<k1> := …; y<k2?> := x   (an option kind converts as its base kind)
//!  optempty <k2>                       : y<k2?> := _                (the empty option)
//!  convarg <k1> <k2> <S operand of k1> : f(p<k2>) => <k2> | p.  f(x)  (the declared kind of a parameter converts the argument)
//!  convres <k1> <k2> <S operand of k1> : g(p<k1>) => <k2> | p.  g(x)  (the declared kind of the result converts the body's value)
use crate::common::*;
use crate::interp::*;
use crate::c01::{operand_def, gen_operand, KINDS};

fn annot(kind: &str, matrix: bool) -> String { if matrix { format!("<[{}]>", kind) } else { format!("<{}>", kind) } }

/// the source of a conversion: the variable `x` (default), a mutable variable (trailing field `form=mut`) or
/// written in place (`form=lit`, when the operand can be spelled in place)
fn src_form(f: &[&str], kind: &str, o: &str) -> (String, String) {
  let form = f.last().and_then(|t| t.strip_prefix("form=")).unwrap_or("var");
  if form == "lit" { if let Some(t) = crate::c01::operand_inline(kind, o) { return (String::new(), t); } }
  (operand_def("x", kind, o, form == "mut"), "x".to_string())
}

pub fn source(case: &str) -> String {
  let f: Vec<&str> = case.split('\t').collect();
  match f[0] {
    "conv" => {
      let is_mat = f[3].starts_with('M');
      let (d, x) = src_form(&f, f[1], f[3]);
      format!("{}y{} := {}", d, annot(f[2], is_mat), x)
    }
    "reshape" => { let (d, x) = src_form(&f, f[1], f[2]); format!("{}y<[{}]:{},{}> := {}", d, f[5], f[3], f[4], x) }
    "toset" => { let (d, x) = src_form(&f, f[1], f[2]); format!("{}y<{{{}}}> := {}", d, f[1], x) }
    "toset2" => { let (d, x) = src_form(&f, f[1], f[3]); format!("{}y<{{{}}}> := {}", d, f[2], x) }
    "convopt" => { let (d, x) = src_form(&f, f[1], f[3]); format!("{}y<{}?> := {}", d, f[2], x) }
    "optempty" => format!("y<{}?> := _", f[1]),
    "convarg" => { let (d, x) = src_form(&f, f[1], f[3]); format!("f(p<{}>) => <{}>\n  | p.\n\n{}f({})", f[2], f[2], d, x) }
    "convres" => { let (d, x) = src_form(&f, f[1], f[3]); format!("g(p<{}>) => <{}>\n  | p.\n\n{}g({})", f[1], f[2], d, x) }
    _ => "bad-proto".into(),
  }
}

pub fn exec(case: &str) -> String {
  let src = source(case);
  match eval(&src) {
    Ok(v) => canon(&v),
    Err(e) => if e == "hostpanic" || e == "notcode" || e == "parseerr" || e == "parsepanic" { format!("harness:{}:{}", e, hexs(&src)) } else { "err".to_string() },
  }
}

fn int_bounds(kind: &str) -> Option<(i128, i128)> {
  Some(match kind { "u8" => (0, 255), "u16" => (0, 65535), "u32" => (0, 4294967295), "u64" | "u128" => (0, 1 << 53),
    "i8" => (-128, 127), "i16" => (-32768, 32767), "i32" => (-2147483648, 2147483647), "i64" | "i128" => (-(1 << 53), 1 << 53), _ => return None })
}

/// a source value of kind `k1` chosen to stress conversion to `k2`
fn gen_value(k1: &str, k2: &str, rng: &mut Rng) -> String {
  if let Some((lo, hi)) = int_bounds(k1) {
    // boundaries of both kinds, clamped to what k1 can hold (and to 2^53, the literal limit)
    let mut pool: Vec<i128> = vec![lo, hi, 0, 1, hi - 1];
    if lo < 0 { pool.extend([-1, lo + 1]); }
    if let Some((lo2, hi2)) = int_bounds(k2) { pool.extend([lo2, hi2, hi2 + 1, lo2 - 1, hi2 / 2]); }
    if k2 == "f32" { pool.extend([16777216, 16777217, 16777219, -16777217, 33554435]); }
    pool.push(rng.range(-300, 300) as i128);
    let v = (*rng.pick(&pool)).clamp(lo, hi);
    return v.to_string();
  }
  match k1 {
    "f64" | "f32" => {
      let mut pool: Vec<f64> = vec![0.0, 0.5, -0.5, 3.99, -3.99, 127.5, 128.0, -128.5, -129.0, 255.9, 256.0, 32767.5, -32768.5, 65535.5, 65536.0,
        2147483647.5, -2147483649.0, 4294967296.0, 9007199254740992.0, -9007199254740992.0, 1e19, -1e19, 3e38, 1.0, 2.0, -7.0, 0.25, 100.0, 0.1, 16777217.0];
      if k2 == "string" || k2 == "r64" { pool = vec![0.0, 5.0, -5.0, 5.5, -0.25, 100.0, 3.0625, 1024.0, 0.5]; }
      // 64- and 128-bit targets: values around 2^63, 2^64, 2^127 and 2^128, where a detour through a narrower kind shows
      if k2 == "u128" || k2 == "i128" || k2 == "u64" || k2 == "i64" {
        pool = vec![9223372036854775808.0, 18446744073709551616.0, 36893488147419103232.0, 1e30, -1e30, 1.7014118346046923e38, -1.7014118346046923e38, 3.4e38, 3.5e38, -3.5e38, 1e19, -9.3e18, 0.5, -3.99, 4294967296.5];
        if k1 == "f32" { pool = vec![9223372036854775808.0, 18446744073709551616.0, 1e30, -1e30, 1.7014118346046923e38, 3.0e38, -3.0e38, 0.5, -3.99]; }
      }
      let x = *rng.pick(&pool);
      if k1 == "f64" { format!("{:016x}", x.to_bits()) } else { format!("{:08x}", (x as f32).to_bits()) }
    }
    _ => crate::c01::gen_elem(k1, rng, 0),
  }
}

pub fn generate(seed: u64, thorough: bool, sink: &mut Sink) -> Vec<String> {
  let mut rng = Rng::new(seed);
  let mut cases = vec![];
  let kinds_all: Vec<&str> = KINDS.to_vec();
  let reps = if thorough { 40 } else { 5 };
  for k1 in &kinds_all { for k2 in &kinds_all {
    for rep in 0..reps {
      let shape = [(1usize, 1usize, true), (1, 3, false), (3, 1, false), (2, 2, false), (1, 1, false)][rep % 5];
      let n = shape.0 * shape.1;
      if *k1 == "c64" && *k2 == "string" { continue; }   // complex number formatting is not modelled
      let els: Vec<String> = (0..n).map(|_| gen_value(k1, k2, &mut rng)).collect();
      let o = if shape.2 { format!("S|{}", els[0]) } else { format!("M|{}|{}|{}", shape.0, shape.1, els.join(" ")) };
      cases.push(format!("conv\t{}\t{}\t{}", k1, k2, o));
      sink.hit(&format!("conv:{}->{}", k1, k2));
    }
  }}
  // option kinds: a value converts as to the base kind, `_` stays empty
  for k1 in &kinds_all { for k2 in &kinds_all {
    if *k1 == "c64" && *k2 == "string" { continue; }
    for _ in 0..(if thorough { 4 } else { 1 }) {
      cases.push(format!("convopt\t{}\t{}\tS|{}", k1, k2, gen_value(k1, k2, &mut rng))); sink.hit("conv:option-target");
    }
  }}
  for k1 in ["f64", "f32"] { for k2 in ["u128", "i128", "u64", "i64"] { for _ in 0..(if thorough { 12 } else { 4 }) {
    cases.push(format!("convopt\t{}\t{}\tS|{}", k1, k2, gen_value(k1, k2, &mut rng))); sink.hit("conv:option-target-wide");
    let els: Vec<String> = (0..3).map(|_| gen_value(k1, k2, &mut rng)).collect();
    cases.push(format!("toset2\t{}\t{}\tM|1|3|{}", k1, k2, els.join(" "))); sink.hit("toset:wide-kind");
  } } }
  for k2 in &kinds_all { cases.push(format!("optempty\t{}", k2)); sink.hit("conv:empty-option"); }
  // the kinds declared by a function: a parameter converts the argument, the result kind converts the body's value
  // (both through `Value::convert_to`).  Its own generator state: the cases that follow are the ones they were
  {
    let mut r2 = Rng::new(seed ^ 0xF00D);
    for k1 in &kinds_all { for k2 in &kinds_all {
      if *k1 == "c64" && *k2 == "string" { continue; }
      for _ in 0..(if thorough { 4 } else { 1 }) {
        cases.push(format!("convarg\t{}\t{}\tS|{}", k1, k2, gen_value(k1, k2, &mut r2))); sink.hit("conv:function-argument");
        cases.push(format!("convres\t{}\t{}\tS|{}", k1, k2, gen_value(k1, k2, &mut r2))); sink.hit("conv:function-result");
      }
    }}
  }
  // reshapes: every (r,c) -> (r',c') with at most 16 elements (equal and unequal counts)
  let mut shapes = vec![];
  for r in 1..=16usize { for c in 1..=16usize { if r * c <= 16 { shapes.push((r, c)); } } }
  for (i, (r, c)) in shapes.iter().enumerate() {
    if *r == 1 && *c == 1 { continue; }
    for (r2, c2) in &shapes {
      let same = r * c == r2 * c2;
      if !same && !rng.chance(1, if thorough { 4 } else { 20 }) { continue; }
      if same && !thorough && !rng.chance(1, 2) { continue; }
      let k = *rng.pick(&["f64", "u8", "i16", "string", "bool", "r64", "f32", "u64", "c64", "i128"]);
      let k2 = if rng.chance(1, 4) && int_bounds(k).is_some() { "f64" } else { k };
      let m = gen_operand(k, *r, *c, false, &mut rng, 0);
      cases.push(format!("reshape\t{}\t{}\t{}\t{}\t{}", k, m, r2, c2, k2));
      sink.hit(if same { "reshape:same-count" } else { "reshape:count-mismatch" });
    }
    let _ = i;
  }
  // scalar to matrix
  for k in ["f64", "u8", "i32", "string", "bool"] { for (r, c) in [(1usize, 3usize), (2, 2), (3, 1)] {
    cases.push(format!("reshape\t{}\t{}\t{}\t{}\t{}", k, gen_operand(k, 1, 1, true, &mut rng, 0), r, c, k));
    sink.hit("scalar-to-matrix");
  }}
  // matrix to set
  for it in 0..(if thorough { 2000 } else { 200 }) {
    let k = *rng.pick(&["f64", "u8", "i16", "string", "bool", "r64", "u64"]);
    let (r, c) = *rng.pick(&[(1usize, 5usize), (5, 1), (2, 3), (3, 3), (1, 2)]);
    // small value universe so duplicates occur
    let pool: Vec<String> = (0..3).map(|_| crate::c01::gen_elem(k, &mut rng, 0)).collect();
    let els: Vec<String> = (0..r * c).map(|_| rng.pick(&pool).clone()).collect();
    cases.push(format!("toset\t{}\tM|{}|{}|{}", k, r, c, els.join(" ")));
    sink.hit("toset");
    let _ = it;
  }
  // matrix to set of another element kind: every element converted by the scalar rule (fractions truncated
  // toward zero, out-of-range values clamped), then made distinct — values chosen so that conversions collide
  let num_kinds = ["f64", "f32", "u8", "i8", "i16", "u16", "i32", "u64", "i64"];
  for _ in 0..(if thorough { 3000 } else { 300 }) {
    let k1 = *rng.pick(&num_kinds); let k2 = *rng.pick(&num_kinds);
    let (r, c) = *rng.pick(&[(1usize, 4usize), (4, 1), (2, 3), (1, 2)]);
    let pool: Vec<String> = (0..3).map(|_| gen_value(k1, k2, &mut rng)).collect();
    let els: Vec<String> = (0..r * c).map(|_| rng.pick(&pool).clone()).collect();
    cases.push(format!("toset2\t{}\t{}\tM|{}|{}|{}", k1, k2, r, c, els.join(" ")));
    sink.hit("toset:other-kind");
  }
  // how the source is written
  let mut frng = Rng::new(seed ^ 0xf0f0);
  for c in cases.iter_mut() {
    if c.starts_with("optempty") { continue; }
    match frng.below(4) { 0 => { c.push_str("\tform=lit"); sink.hit("source:in-place"); } 1 => { c.push_str("\tform=mut"); sink.hit("source:mutable"); } _ => { sink.hit("source:variable"); } }
  }
  sink.sample(cases[0].clone()); sink.sample(cases[cases.len() - 1].clone());
  cases
}
