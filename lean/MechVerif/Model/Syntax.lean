/-
Expressions and statements at token level (src/syntax/src/{expressions,structures,statements}.rs):
the formula grammar of Model/Formula.lean with structured operands —

  expression := formula | formula ".." formula [".." formula]          (range operators `..` and `..=`)
  factor     := literal | name | name "(" [argument {"," argument}] ")"     argument := [name ":"] expression
              | "[" [row {";" row}] "]"         row := expression {" " expression}
              | "(" ")" | "(" expression "," … ")"   (a tuple; one formula in parentheses is a parenthetical term)
              | "{" [expression {"," expression}] "}"                     (a set; `{}` is the empty set)
              | "{" binding {"," binding} "}"       binding := name [kind] ":" expression     (a record)
              | "{" ":" "}" | "{" mapping {"," mapping} "}"   mapping := expression ":" expression  (a map)
              | name selector {selector}                     subscript := ":" | expression
                  selector := "[" subscript {"," subscript} "]" | "{" subscript {"," subscript} "}"
                            | "." name | "." integer | "." name "," name {"," name}   (a swizzle)
              | "|" field {" " field} "|" row "|" {row "|"}     field := name kind     (a table literal)
              | "(" formula ")" | "-" factor | "!" factor,   each optionally followed by "'"
  statement  := ["~"] name [kind] ":=" expression
              | name {selector} ("=" | "+=" | "-=" | …) expression
  program    := statement {newline statement}

Tokens stand for lexemes in their canonical spelling: the element separator inside a matrix row is
its own token (`sp`), so is the comma inside a swizzle (`swz`: no space may follow it), a kind annotation is
opaque, literals and names are numbered (the integer after a dot is a literal token).  Every recursive call
spends one unit of fuel (structural recursion); separated lists are read by the generic `sepBy`, which stops at the
first token that is not the separator, repetitions without separator (the subscripts after a name, the rows of a
table) by the generic `many`, which stops at the first element that does not parse.
-/
import MechVerif.Model.Prec
namespace MechVerif.Syntax
open MechVerif.Prec

inductive Tok where
  | lit (n : Nat) | id (n : Nat)
  | lp | rp | lb | rb | lc | rc
  | comma | semi | sp | colon | dot | swz | bar
  | dots (incl : Bool)
  | op (o : Op) | dash | bang | quote
  | tilde | define | assign | opAssign (k : Nat) | kind (n : Nat) | nl
deriving DecidableEq, Repr

/-- an expression over operands `α` -/
inductive Ex (α : Type) where
  | form (t : Tree α)
  | range (a : Tree α) (i : Bool) (b : Tree α)
  | range3 (a : Tree α) (i1 : Bool) (s : Tree α) (i2 : Bool) (b : Tree α)

inductive Sub (α : Type) where
  | all
  | ex (e : Ex α)

/-- one subscript of a name: `[…]`, `{…}`, `.name`, `.1`, `.a,b` -/
inductive Sel (α : Type) where
  | bracket (ss : List (Sub α))
  | brace (ss : List (Sub α))
  | dot (y : Nat)
  | dotInt (k : Nat)
  | swizzle (y : Nat) (ys : List Nat)

/-- an argument of a call: positional or named -/
inductive Arg (α : Type) where
  | pos (e : Ex α)
  | named (x : Nat) (e : Ex α)

/-- a binding of a record: name, optional kind annotation, value -/
inductive Bind (α : Type) where
  | mk (x : Nat) (k : Option Nat) (e : Ex α)

/-- an element of a map -/
inductive Mapping (α : Type) where
  | mk (k v : Ex α)

/-- an element between braces before the literal is classified -/
inductive Ent (α : Type) where
  | plain (e : Ex α)
  | keyed (k v : Ex α)
  | bind (x : Nat) (k : Option Nat) (e : Ex α)

inductive Fac where
  | lit (n : Nat)
  | var (n : Nat)
  | call (f : Nat) (args : List (Arg Fac))
  | mat (rows : List (List (Ex Fac)))
  | tup (es : List (Ex Fac))
  | set (es : List (Ex Fac))
  | recd (bs : List (Bind Fac))
  | map (ms : List (Mapping Fac))
  | tbl (hdr : List (Nat × Nat)) (rows : List (List (Ex Fac)))
  | slice (x : Nat) (sels : List (Sel Fac))
  | paren (t : Tree Fac)
  | neg (f : Fac)
  | not (f : Fac)
  | tr (f : Fac)

abbrev Trm := Tree Fac
abbrev Exp := Ex Fac

structure Gram where
  N : Nat
  sub : Op

def Gram.lvlOk (g : Gram) (o : Op) : Bool := decide (1 ≤ o.lvl) && decide (o.lvl ≤ g.N)

def Gram.binOp? (g : Gram) : Tok → Option Op
  | .op o => if g.lvlOk o && decide (o ≠ g.sub) then some o else none
  | .dash => if g.lvlOk g.sub then some g.sub else none
  | _ => none

def Gram.opTok (g : Gram) (o : Op) : Tok := if o = g.sub then .dash else .op o

/-- `opt(transpose)` -/
def post (f : Fac) : List Tok → Fac × List Tok
  | .quote :: r => (.tr f, r)
  | r => (f, r)

/-- `p {sep p}`: one element, then further elements for as long as the separator follows; at most
    `k` elements (the callers pass the length of the text) -/
def sepBy {α : Type} (p : List Tok → Option (α × List Tok)) (sep : Tok) : Nat → List Tok → Option (List α × List Tok)
  | 0, _ => none
  | k + 1, ts =>
    match p ts with
    | none => none
    | some (a, r) =>
      match r with
      | t :: r' =>
        if t = sep then
          (match sepBy p sep k r' with
           | some (as, r'') => some (a :: as, r'')
           | none => none)
        else some ([a], r)
      | [] => some ([a], [])

/-- `many0(p)`: elements for as long as `p` accepts; at most `k` of them -/
def many {α : Type} (p : List Tok → Option (α × List Tok)) : Nat → List Tok → List α × List Tok
  | 0, ts => ([], ts)
  | k + 1, ts =>
    match p ts with
    | none => ([], ts)
    | some (a, r) => (a :: (many p k r).1, (many p k r).2)

/-- a field of a table header: name and kind annotation -/
def pField : List Tok → Option ((Nat × Nat) × List Tok)
  | .id x :: .kind k :: r => some ((x, k), r)
  | _ => none

/-- a row of a table: cells, then the bar that closes the row -/
def rowOf {α : Type} (p : List Tok → Option (α × List Tok)) (ts : List Tok) : Option (List α × List Tok) :=
  match sepBy p .sp ts.length ts with
  | some (cells, .bar :: r) => some (cells, r)
  | _ => none

def pName : List Tok → Option (Nat × List Tok)
  | .id y :: r => some (y, r)
  | _ => none

/-- a list that may be empty, closed by `close` -/
def listTill {α : Type} (p : List Tok → Option (α × List Tok)) (sep close : Tok) (ts : List Tok) : Option (List α × List Tok) :=
  match ts with
  | t :: r =>
    if t = close then some ([], r) else
    (match sepBy p sep ts.length ts with
     | some (as, c :: r') => if c = close then some (as, r') else none
     | _ => none)
  | [] => none

/-! the literal between braces: `structure` tries `empty_set` (`{}`), `empty_map` (`{:}`), then `record`, `map`, `set`;
    a record is a list of bindings (`name [kind] : e`), a map a list of `e : e`, a set a list of `e`, each closed by
    `}`.  The model reads the entries once and classifies them, which decides every text as the backtracking does:
    `record` succeeds exactly when every entry is a binding; otherwise (`many1(binding)` stopped early and `}` did
    not follow) `map` succeeds exactly when every entry is `e : e` — a binding without a kind annotation is also such an
    entry, its key the bare name, one with a kind annotation is not in this sublanguage; otherwise `set` succeeds exactly
    when no entry has a colon; mixed texts fail in all three. -/

def allBind : List (Ent Fac) → Option (List (Bind Fac))
  | [] => some []
  | .bind x k e :: es => (match allBind es with | some bs => some (.mk x k e :: bs) | none => none)
  | _ :: _ => none

def allKeyed : List (Ent Fac) → Option (List (Mapping Fac))
  | [] => some []
  | .keyed k v :: es => (match allKeyed es with | some ms => some (.mk k v :: ms) | none => none)
  | .bind x none e :: es => (match allKeyed es with | some ms => some (.mk (.form (.leaf (.var x))) e :: ms) | none => none)
  | _ :: _ => none

def allPlain : List (Ent Fac) → Option (List (Ex Fac))
  | [] => some []
  | .plain e :: es => (match allPlain es with | some xs => some (e :: xs) | none => none)
  | _ :: _ => none

/-- record if every entry is a binding, else map if every entry has a key, else set if none has -/
def classify (ents : List (Ent Fac)) : Option Fac :=
  match ents with
  | [] => some (.set [])
  | _ =>
    match allBind ents with
    | some bs => some (.recd bs)
    | none =>
      match allKeyed ents with
      | some ms => some (.map ms)
      | none =>
        match allPlain ents with
        | some es => some (.set es)
        | none => none

mutual
/-- `factor` -/
def pFac (g : Gram) : Nat → List Tok → Option (Fac × List Tok)
  | 0, _ => none
  | n + 1, ts =>
    match ts with
    | .lit a :: r => some (post (.lit a) r)
    | .id x :: .lp :: r =>
      (match listTill (pArg g n) .comma .rp r with
       | some (args, r') => some (post (.call x args) r')
       | none => none)
    | .id x :: r =>
      (match many (pSel g n) r.length r with
       | ([], r') => some (post (.var x) r')
       | (sels, r') => some (post (.slice x sels) r'))
    | .lb :: r =>
      (match listTill (fun ts => sepBy (pEx g n) .sp ts.length ts) .semi .rb r with
       | some (rows, r') => some (post (.mat rows) r')
       | none => none)
    | .bar :: r =>
      (match sepBy pField .sp r.length r with
       | some (hdr, .bar :: r1) =>
         (match many (rowOf (pEx g n)) r1.length r1 with
          | ([], _) => none
          | (rows, r2) => some (post (.tbl hdr rows) r2))
       | _ => none)
    | .lc :: .colon :: .rc :: r => some (post (.map []) r)
    | .lc :: r =>
      (match listTill (pEnt g n) .comma .rc r with
       | some (ents, r') => (match classify ents with | some f => some (post f r') | none => none)
       | none => none)
    | .lp :: r =>
      (match listTill (pEx g n) .comma .rp r with
       | some ([.form t], r') => some (post (.paren t) r')
       | some (es, r') => some (post (.tup es) r')
       | none => none)
    | .dash :: r => (match pFac g n r with | some (f, r') => some (post (.neg f) r') | none => none)
    | .bang :: r => (match pFac g n r with | some (f, r') => some (post (.not f) r') | none => none)
    | _ => none
/-- the operator/operand pairs after the first operand -/
def pChain (g : Gram) : Nat → List Tok → Option (Rest Fac × List Tok)
  | 0, _ => none
  | n + 1, ts =>
    match ts with
    | [] => some ([], [])
    | t :: r =>
      (match g.binOp? t with
       | none => some ([], t :: r)
       | some o =>
         (match pFac g n r with
          | none => none
          | some (f, r1) =>
            (match pChain g n r1 with
             | none => none
             | some (ps, r2) => some ((o, f) :: ps, r2))))
/-- `formula` -/
def pForm (g : Gram) : Nat → List Tok → Option (Trm × List Tok)
  | 0, _ => none
  | n + 1, ts =>
    match pFac g n ts with
    | none => none
    | some (a, r) =>
      (match pChain g n r with
       | none => none
       | some (ps, r') =>
         let res := parseFormula g.N a ps
         if res.2.isEmpty then some (res.1, r') else none)
/-- `expression`: a formula, or a range of two or three formulas -/
def pEx (g : Gram) : Nat → List Tok → Option (Exp × List Tok)
  | 0, _ => none
  | n + 1, ts =>
    match pForm g n ts with
    | none => none
    | some (a, .dots i1 :: r) =>
      (match pForm g n r with
       | none => none
       | some (b, .dots i2 :: r') =>
         (match pForm g n r' with
          | none => none
          | some (c, r'') => some (.range3 a i1 b i2 c, r''))
       | some (b, r') => some (.range a i1 b, r'))
    | some (a, r) => some (.form a, r)
/-- a subscript: `:` or an expression -/
def pSub (g : Gram) : Nat → List Tok → Option (Sub Fac × List Tok)
  | 0, _ => none
  | n + 1, ts =>
    match ts with
    | .colon :: r => some (.all, r)
    | _ => (match pEx g n ts with | some (e, r) => some (.ex e, r) | none => none)
/-- one subscript after a name -/
def pSel (g : Gram) : Nat → List Tok → Option (Sel Fac × List Tok)
  | 0, _ => none
  | n + 1, ts =>
    match ts with
    | .lb :: r =>
      (match sepBy (pSub g n) .comma r.length r with
       | some (subs, .rb :: r') => some (.bracket subs, r')
       | _ => none)
    | .lc :: r =>
      (match sepBy (pSub g n) .comma r.length r with
       | some (subs, .rc :: r') => some (.brace subs, r')
       | _ => none)
    | .dot :: .id y :: .swz :: r =>
      (match sepBy pName .swz r.length r with
       | some (ys, r') => some (.swizzle y ys, r')
       | none => none)
    | .dot :: .id y :: r => some (.dot y, r)
    | .dot :: .lit k :: r => some (.dotInt k, r)
    | _ => none
/-- an argument of a call: `call-arg-with-binding | call-arg` -/
def pArg (g : Gram) : Nat → List Tok → Option (Arg Fac × List Tok)
  | 0, _ => none
  | n + 1, ts =>
    match ts with
    | .id x :: .colon :: r => (match pEx g n r with | some (e, r') => some (.named x e, r') | none => none)
    | _ => (match pEx g n ts with | some (e, r) => some (.pos e, r) | none => none)
/-- an entry between braces: a binding, or an expression optionally followed by `:` and a value -/
def pEnt (g : Gram) : Nat → List Tok → Option (Ent Fac × List Tok)
  | 0, _ => none
  | n + 1, ts =>
    match ts with
    | .id x :: .kind k :: .colon :: r => (match pEx g n r with | some (e, r') => some (.bind x (some k) e, r') | none => none)
    | .id x :: .colon :: r => (match pEx g n r with | some (e, r') => some (.bind x none e, r') | none => none)
    | _ =>
      (match pEx g n ts with
       | some (a, .colon :: r) => (match pEx g n r with | some (b, r') => some (.keyed a b, r') | none => none)
       | some (a, r) => some (.plain a, r)
       | none => none)
end

/-! ### statements and programs -/

inductive Stmt where
  | define (mu : Bool) (x : Nat) (k : Option Nat) (e : Exp)
  | assign (x : Nat) (sels : List (Sel Fac)) (e : Exp)
  | opAssign (x : Nat) (sels : List (Sel Fac)) (k : Nat) (e : Exp)

/-- `slice-ref`: a name with optional subscripts -/
def pTarget (g : Gram) (n : Nat) (ts : List Tok) : Option (Nat × List (Sel Fac) × List Tok) :=
  match ts with
  | .id x :: r => some (x, (many (pSel g n) r.length r).1, (many (pSel g n) r.length r).2)
  | _ => none

def pDefine (g : Gram) (n : Nat) (mu : Bool) (ts : List Tok) : Option (Stmt × List Tok) :=
  match ts with
  | .id x :: .kind k :: .define :: r => (match pEx g n r with | some (e, r') => some (.define mu x (some k) e, r') | none => none)
  | .id x :: .define :: r => (match pEx g n r with | some (e, r') => some (.define mu x none e, r') | none => none)
  | _ => none

/-- `statement` (variable-define | variable-assign | op-assign) -/
def pStmt (g : Gram) (n : Nat) (ts : List Tok) : Option (Stmt × List Tok) :=
  match ts with
  | .tilde :: r => pDefine g n true r
  | _ =>
    match pDefine g n false ts with
    | some res => some res
    | none =>
      (match pTarget g n ts with
       | some (x, subs, .assign :: r) => (match pEx g n r with | some (e, r') => some (.assign x subs e, r') | none => none)
       | some (x, subs, .opAssign k :: r) => (match pEx g n r with | some (e, r') => some (.opAssign x subs k e, r') | none => none)
       | _ => none)

/-- a program: statements separated by line breaks, the whole text consumed -/
def pProg (g : Gram) (n : Nat) (ts : List Tok) : Option (List Stmt) :=
  match sepBy (pStmt g n) .nl ts.length ts with
  | some (ss, []) => some ss
  | _ => none

/-! ### the formatter: each node writes its parts in order -/

/-- elements with a separator between them -/
def rSep {α : Type} (r : α → List Tok) (sep : Tok) : List α → List Tok
  | [] => []
  | [a] => r a
  | a :: b :: as => r a ++ sep :: rSep r sep (b :: as)

mutual
def rFac (g : Gram) : Fac → List Tok
  | .lit n => [.lit n]
  | .var n => [.id n]
  | .call f args => .id f :: .lp :: rArgs g args ++ [.rp]
  | .mat rows => .lb :: rRows g rows ++ [.rb]
  | .tup es => .lp :: rExs g es ++ [.rp]
  | .set es => .lc :: rExs g es ++ [.rc]
  | .recd bs => .lc :: rBinds g bs ++ [.rc]
  | .map ms => .lc :: (if ms.isEmpty then [.colon] else rMaps g ms) ++ [.rc]
  | .tbl hdr rows => .bar :: rSep (fun f => [.id f.1, .kind f.2]) .sp hdr ++ .bar :: rTRows g rows
  | .slice x sels => .id x :: rSels g sels
  | .paren t => .lp :: rTrm g t ++ [.rp]
  | .neg f => .dash :: rFac g f
  | .not f => .bang :: rFac g f
  | .tr f => rFac g f ++ [.quote]
def rTrm (g : Gram) : Trm → List Tok
  | .leaf f => rFac g f
  | .node l o r => rTrm g l ++ g.opTok o :: rTrm g r
def rEx (g : Gram) : Exp → List Tok
  | .form t => rTrm g t
  | .range a i b => rTrm g a ++ .dots i :: rTrm g b
  | .range3 a i1 s i2 b => rTrm g a ++ .dots i1 :: (rTrm g s ++ .dots i2 :: rTrm g b)
def rExs (g : Gram) : List Exp → List Tok
  | [] => []
  | [e] => rEx g e
  | e :: e' :: es => rEx g e ++ .comma :: rExs g (e' :: es)
def rRow (g : Gram) : List Exp → List Tok
  | [] => []
  | [e] => rEx g e
  | e :: e' :: es => rEx g e ++ .sp :: rRow g (e' :: es)
def rRows (g : Gram) : List (List Exp) → List Tok
  | [] => []
  | [r] => rRow g r
  | r :: r' :: rs => rRow g r ++ .semi :: rRows g (r' :: rs)
def rTRows (g : Gram) : List (List Exp) → List Tok
  | [] => []
  | r :: rs => rRow g r ++ .bar :: rTRows g rs
def rSub (g : Gram) : Sub Fac → List Tok
  | .all => [.colon]
  | .ex e => rEx g e
def rSubs (g : Gram) : List (Sub Fac) → List Tok
  | [] => []
  | [s] => rSub g s
  | s :: s' :: ss => rSub g s ++ .comma :: rSubs g (s' :: ss)
def rSel (g : Gram) : Sel Fac → List Tok
  | .bracket ss => .lb :: rSubs g ss ++ [.rb]
  | .brace ss => .lc :: rSubs g ss ++ [.rc]
  | .dot y => [.dot, .id y]
  | .dotInt k => [.dot, .lit k]
  | .swizzle y ys => .dot :: .id y :: .swz :: rSep (fun z => [.id z]) .swz ys
def rSels (g : Gram) : List (Sel Fac) → List Tok
  | [] => []
  | s :: ss => rSel g s ++ rSels g ss
def rArg (g : Gram) : Arg Fac → List Tok
  | .pos e => rEx g e
  | .named x e => .id x :: .colon :: rEx g e
def rArgs (g : Gram) : List (Arg Fac) → List Tok
  | [] => []
  | [a] => rArg g a
  | a :: a' :: as => rArg g a ++ .comma :: rArgs g (a' :: as)
def rBind (g : Gram) : Bind Fac → List Tok
  | .mk x k e => .id x :: ((match k with | some k => [.kind k] | none => []) ++ .colon :: rEx g e)
def rBinds (g : Gram) : List (Bind Fac) → List Tok
  | [] => []
  | [b] => rBind g b
  | b :: b' :: bs => rBind g b ++ .comma :: rBinds g (b' :: bs)
def rMapping (g : Gram) : Mapping Fac → List Tok
  | .mk k v => rEx g k ++ .colon :: rEx g v
def rMaps (g : Gram) : List (Mapping Fac) → List Tok
  | [] => []
  | [m] => rMapping g m
  | m :: m' :: ms => rMapping g m ++ .comma :: rMaps g (m' :: ms)
end

def rEnt (g : Gram) : Ent Fac → List Tok
  | .plain e => rEx g e
  | .keyed k v => rEx g k ++ .colon :: rEx g v
  | .bind x k e => .id x :: ((match k with | some k => [.kind k] | none => []) ++ .colon :: rEx g e)

def rTarget (g : Gram) (x : Nat) (sels : List (Sel Fac)) : List Tok := .id x :: rSels g sels

def rStmt (g : Gram) : Stmt → List Tok
  | .define mu x k e =>
    (if mu then [.tilde] else []) ++ .id x :: ((match k with | some k => [.kind k] | none => []) ++ .define :: rEx g e)
  | .assign x subs e => rTarget g x subs ++ .assign :: rEx g e
  | .opAssign x subs k e => rTarget g x subs ++ .opAssign k :: rEx g e

def rProg (g : Gram) (ss : List Stmt) : List Tok := rSep (rStmt g) .nl ss

def rRest (g : Gram) : Rest Fac → List Tok
  | [] => []
  | (o, f) :: ps => g.opTok o :: rFac g f ++ rRest g ps

end MechVerif.Syntax
