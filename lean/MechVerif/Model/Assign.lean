/-
Indexed assignment `x[…] = v`, `x[…] op= v`: the kernels of
src/interpreter/src/stdlib/assign/matrix.rs and the `impl_assign_*`/`impl_set_*` macros
of src/core/src/stdlib.rs write the addressed elements one after another in place; a
kernel that fails half-way has already written the earlier elements.
-/
import MechVerif.Model.Index
namespace MechVerif.Assign
open MechVerif.Num MechVerif.Mat MechVerif.Index

/-- write targets one after another; stop at the first failure, keeping what was written -/
def scatter {α : Type} (f : α → α → Except Err α) (srcAt : Nat → Except Err α) :
    List (Except Err Nat) → Nat → List α → List α × Except Err Unit
  | [], _, d => (d, .ok ())
  | t :: ts, k, d =>
    match t with
    | .error e => (d, .error e)
    | .ok p =>
      match getE d p with
      | .error e => (d, .error e)
      | .ok old =>
        match srcAt k with
        | .error e => (d, .error e)
        | .ok v =>
          match f old v with
          | .error e => (d, .error e)
          | .ok new => scatter f srcAt ts (k + 1) (d.set p new)

/-- linear 0-based position of the 1-based linear index `i` -/
def linTarget {α : Type} (m : Mat α) (i : Nat) : Except Err Nat :=
  bindE (pred1 i) (fun k => if k < m.rows * m.cols then .ok k else .error .index)

/-- linear 0-based position of the 1-based (r, c) -/
def rcTarget {α : Type} (m : Mat α) (r c : Nat) : Except Err Nat :=
  bindE (pred1 r) (fun r0 => bindE (pred1 c) (fun c0 =>
    if r0 < m.rows ∧ c0 < m.cols then .ok (c0 * m.rows + r0) else .error .index))

/-- all (r, c) pairs column by column -/
def pairs (R C : List Nat) : List (Nat × Nat) := C.flatMap (fun c => R.map (fun r => (r, c)))

/-- the source element for the k-th addressed position -/
def srcAt {α : Type} (src : Operand α) (k : Nat) : Except Err α :=
  match src with
  | .scalar v => .ok v
  | .mat w => getE w.data k

/-- `x[s] op= src` -/
def assign1 {α : Type} (f : α → α → Except Err α) (m : Mat α) (s : Sel) (src : Operand α) :
    Mat α × Except Err Unit :=
  match selIxs s (m.rows * m.cols) with
  | .error e => (m, .error e)
  | .ok ix =>
    let r := scatter f (srcAt src) (ix.map (linTarget m)) 0 m.data
    ({ m with data := r.1 }, r.2)

/-- `x[s1, s2] op= src` -/
def assign2 {α : Type} (f : α → α → Except Err α) (m : Mat α) (s1 s2 : Sel) (src : Operand α) :
    Mat α × Except Err Unit :=
  match selIxs s1 m.rows, selIxs s2 m.cols with
  | .ok R, .ok C =>
    let r := scatter f (srcAt src) ((pairs R C).map (fun p => rcTarget m p.1 p.2)) 0 m.data
    ({ m with data := r.1 }, r.2)
  | .error e, _ => (m, .error e)
  | _, .error e => (m, .error e)

end MechVerif.Assign
