//! C19: re-evaluation. Case: `steps <K> <stmt>;;<stmt>…`; statements as in C05 (D, A, P) with
//! expressions n<int> | v<name> | b<op><atom>,<atom>.
//! Observation: snapshot after interpret and after each of K single steps, then `#i2:` the
//! snapshot of a second interpreter after interpret, `#bulk:` its snapshot after step(0, K).
use crate::common::*;
use crate::interp::*;
use mech_interpreter::*;

fn atom_src(a: &str) -> String { let (t, r) = a.split_at(1); if t == "n" { if r.starts_with('-') { format!("({})", r) } else { r.to_string() } } else { r.to_string() } }
fn expr_src(e: &str) -> String {
  if e.starts_with('b') { let op = &e[1..2]; let (a, b) = e[2..].split_once(',').unwrap(); format!("{} {} {}", atom_src(a), op, atom_src(b)) } else { atom_src(e) }
}
fn stmt_src(s: &str) -> String {
  let p: Vec<&str> = s.split(':').collect();
  match p[0] {
    "D" => format!("{}{} := {}", if p[1] == "1" { "~" } else { "" }, p[2], expr_src(p[3])),
    "A" => format!("{} = {}", p[1], expr_src(p[2])),
    "P" => format!("{} += {}", p[1], expr_src(p[2])),
    _ => panic!("bad stmt"),
  }
}

fn snapshot(intrp: &Interpreter) -> String {
  let st = intrp.symbols();
  let st = st.borrow();
  let d = st.dictionary.borrow();
  let mut v: Vec<String> = st.symbols.iter().filter_map(|(k, val)| {
    let name = d.get(k).cloned().unwrap_or("?".into());
    if name == "ans" { None } else { Some(format!("{}={}", name, canon(&val.borrow()))) } }).collect();
  v.sort();
  v.join(";")
}

/// `zz := <last line>` when the last line is an expression
fn name_last(src: &str) -> String {
  let t = src.trim_end();
  match t.rfind('\n') {
    Some(i) => { let (head, last) = t.split_at(i + 1); if last.contains(":=") || last.starts_with(' ') || last.trim().is_empty() { t.to_string() } else { format!("{}zz := {}", head, last) } }
    None => if t.contains(":=") { t.to_string() } else { format!("zz := {}", t) },
  }
}

pub fn exec(case: &str) -> String {
  let f: Vec<&str> = case.split('\t').collect();
  let k: usize = f[1].parse().unwrap();
  // `resolve`: an assignment-free program of another generator, given as text; its last statement is
  // given a name so that its value is part of every snapshot
  let foreign = f[0] == "resolve";
  let src = if foreign { name_last(&String::from_utf8(crate::c07::unhex(f[3])).unwrap()) } else { f[2].split(";;").map(stmt_src).collect::<Vec<_>>().join("\n") };
  let tree = match parse_code(&src) { Ok(t) => t, Err(e) => return if foreign { "skip".into() } else { format!("harness:{}:{}", e, hexs(&src)) } };
  let mut a = Interpreter::new(0);
  let with_out = |snap: String, _v: &mech_core::Value| snap;
  let first = match std::panic::catch_unwind(std::panic::AssertUnwindSafe(|| a.interpret(&tree))) {
    Ok(Ok(v)) => with_out(snapshot(&a), &v),
    Ok(Err(e)) => return if foreign { "skip".into() } else { format!("harness:interpret-failed:{}", e.kind_name()) },
    Err(_) => return if foreign { "skip".into() } else { "hostpanic".into() } };
  let mut snaps = vec![first];
  for _ in 0..k {
    match std::panic::catch_unwind(std::panic::AssertUnwindSafe(|| a.step(0, 1))) { Ok(Ok(v)) => snaps.push(with_out(snapshot(&a), &v)),
      // a program that leaves no plan behind (a literal, a call of a user function) has nothing to re-evaluate
      Ok(Err(e)) => { if foreign && e.kind_name() == "NoStepsInPlan" { return "skip".into(); } if foreign { snaps.push(format!("err:{}", e.kind_name())); } break },
      Err(_) => return "hostpanic".into() }
  }
  let mut b = Interpreter::new(7);
  let rb = std::panic::catch_unwind(std::panic::AssertUnwindSafe(|| b.interpret(&tree)));
  let i2 = match &rb { Ok(Ok(v)) => with_out(snapshot(&b), v), _ => snapshot(&b) };
  let rs = std::panic::catch_unwind(std::panic::AssertUnwindSafe(|| b.step(0, k as u64)));
  let bulk = match &rs { Ok(Ok(v)) => with_out(snapshot(&b), v), Ok(Err(e)) if foreign => format!("err:{}", e.kind_name()), _ => snapshot(&b) };
  format!("{}#i2:{}#bulk:{}", snaps.join("@"), i2, bulk)
}

pub fn generate(seed: u64, thorough: bool, sink: &mut Sink) -> Vec<String> {
  let mut rng = Rng::new(seed);
  let mut cases = vec![];
  let names = ["a", "b", "c", "d", "e"];
  let n = if thorough { 40000 } else { 2500 };
  for it in 0..n {
    let with_mutation = it % 2 == 1;
    let len = 1 + rng.below(6) as usize;
    let mut defined: Vec<(&str, bool)> = vec![];
    let mut stmts = vec![];
    for _ in 0..len {
      let atom = |rng: &mut Rng, defined: &Vec<(&str, bool)>| -> String {
        if !defined.is_empty() && rng.chance(3, 5) { format!("v{}", rng.pick(defined).0) } else { format!("n{}", rng.range(0, 6)) } };   // non-negative: a negative literal is a negate step of its own
      let expr = |rng: &mut Rng, defined: &Vec<(&str, bool)>| -> String {
        match rng.below(4) {
          0 => atom(rng, defined),
          _ => { let op = *rng.pick(&["+", "+", "-", "*"]); let a = atom(rng, defined);
                 let b = if op == "*" { format!("n{}", rng.range(1, 3)) } else { atom(rng, defined) };
                 format!("b{}{},{}", op, a, b) }
        }
      };
      let muts: Vec<&str> = defined.iter().filter(|(_, m)| *m).map(|(d, _)| *d).collect();
      let fresh: Vec<&str> = names.iter().copied().filter(|x| !defined.iter().any(|(d, _)| d == x)).collect();
      let s = if with_mutation && !muts.is_empty() && rng.chance(1, 2) {
        let t = *rng.pick(&muts);
        if rng.chance(1, 2) { format!("A:{}:{}", t, expr(&mut rng, &defined)) } else { format!("P:{}:{}", t, expr(&mut rng, &defined)) }
      } else if !fresh.is_empty() {
        let nm = fresh[0]; let m = if with_mutation { rng.below(2) } else { rng.below(4).min(1) };
        let e = expr(&mut rng, &defined);
        defined.push((nm, m == 1));
        format!("D:{}:{}:{}", m, nm, e)
      } else { continue };
      sink.hit(&format!("stmt:{}", &s[..1]));
      stmts.push(s);
    }
    if stmts.is_empty() { continue; }
    // step counts 0..k: a request for zero steps must change nothing
    let k = rng.below(if thorough { 7 } else { 5 });
    cases.push(format!("steps\t{}\t{}", k, stmts.join(";;")));
    sink.hit(if stmts.iter().any(|s| !s.starts_with('D')) { "program:with-assignments" } else { "program:assignment-free" });
    if it < 4 { sink.sample(cases[cases.len() - 1].clone()); }
  }
  // assignment-free programs over the whole expression language: every operator on every kind and
  // storage form, indexing, matrix literals, conversions, literals, sets, ranges, tables, functions
  let mut scratch = Sink::new();
  let per = if thorough { 3000 } else { 250 };
  let take = |cases: Vec<String>, n: usize| -> Vec<String> { let k = cases.len(); if k <= n { cases } else { let step = k / n; cases.into_iter().step_by(step.max(1)).take(n).collect() } };
  // every operator on every pair of operand forms (scalar, 1x1, row, column, square, rectangular; f64, bool and one
  // integer kind), re-evaluated once and three times: a kernel that accumulates into its output instead of
  // overwriting it is right the first time and wrong on every odd re-evaluation
  {
    let shape = |o: &str| -> String { let p: Vec<&str> = o.split('|').collect(); if p[0] == "S" { "S".to_string() } else { let (r, c): (usize, usize) = (p[1].parse().unwrap_or(0), p[2].parse().unwrap_or(0));
      (if r == 1 && c == 1 { "1x1" } else if r == 1 { "row" } else if c == 1 { "col" } else if r == c { "sq" } else { "rect" }).to_string() } };
    let mut seen: std::collections::HashMap<String, u32> = std::collections::HashMap::new();
    let mut picked: Vec<String> = vec![];
    for c in crate::c01::generate(seed, true, &mut scratch) {
      let f: Vec<&str> = c.split('\t').collect();
      if f[0] != "binop" || f.len() < 5 { continue; }
      if !(f[2] == "f64" || f[2] == "bool" || f[2] == "u8") { continue; }
      let key = format!("{}|{}|{}|{}", f[1], f[2], shape(f[3]), shape(f[4]));
      // up to four cases of a form pair: the sizes of some are deliberately incompatible (those do not evaluate)
      let n = seen.entry(key).or_insert(0); if *n < 4 { *n += 1; picked.push(crate::c01::source(&c)); }
    }
    for (i, s) in picked.iter().enumerate() { for k in [if i % 2 == 0 { 1u64 } else { 3 }] { sink.hit("resolve:operator-forms"); cases.push(format!("resolve\t{}\toperator-forms\t{}", k, hexs(&s))); } }
  }
  let mut push = |class: &str, srcs: Vec<String>, rng: &mut Rng, sink: &mut Sink| { for s in srcs { sink.hit(&format!("resolve:{}", class)); let k = rng.below(4); cases.push(format!("resolve\t{}\t{}\t{}", k, class, hexs(&s))); } };
  push("operators", take(crate::c01::generate(seed, thorough, &mut scratch), per * 3).iter().map(|c| crate::c01::source(c)).collect(), &mut rng, sink);
  push("indexing", take(crate::c03::generate(seed, thorough, &mut scratch), per).iter().map(|c| crate::c03::source(c)).collect(), &mut rng, sink);
  push("matrix-literals", take(crate::c11::generate(seed, thorough, &mut scratch), per).iter().map(|c| crate::c11::source(c)).collect(), &mut rng, sink);
  push("conversions", take(crate::c12::generate(seed, thorough, &mut scratch), per).iter().map(|c| crate::c12::source(c)).collect(), &mut rng, sink);
  push("sets", take(crate::c14::generate(seed, thorough, &mut scratch), per).iter().map(|c| crate::c14::source(c)).collect(), &mut rng, sink);
  push("ranges", take(crate::c15::generate(seed, thorough, &mut scratch), per).iter().map(|c| { let f: Vec<&str> = c.split('\t').collect(); crate::c15::source(&f) }).collect(), &mut rng, sink);
  push("tables", take(crate::c18::generate(seed, thorough, &mut scratch), per / 2).iter().map(|c| crate::c18::source(c)).collect(), &mut rng, sink);
  push("functions-and-matches", take(crate::c16::generate(seed, thorough, &mut scratch), per / 2).iter().map(|c| crate::c16::source(c)).collect(), &mut rng, sink);
  // transposes, negations and products of matrices of every storage class — fixed sizes up to 4x4, dynamic ones
  // beyond, square and not — feeding a later statement: a kernel that keeps state in its own output is right the
  // first time and wrong on every other re-evaluation.  Its own generator state: appended, the cases above keep their place
  {
    let mut r2 = Rng::new(seed ^ 0x7A75);
    let mut srcs: Vec<String> = vec![];
    let shapes: [(usize, usize); 12] = [(1, 1), (2, 2), (3, 3), (4, 4), (5, 5), (6, 6), (7, 7), (1, 5), (5, 1), (2, 5), (5, 3), (6, 5)];
    for (r, c) in shapes.iter() { for rep in 0..(if thorough { 12 } else { 3 }) {
      let kind = ["", "u8", "i64"][rep % 3];
      let el = |rng: &mut Rng| -> String { let v = rng.range(1, 99); if kind.is_empty() { format!("{}", v) } else { format!("{}<{}>", v, kind) } };
      let lit = (0..*r).map(|_| (0..*c).map(|_| el(&mut r2)).collect::<Vec<_>>().join(" ")).collect::<Vec<_>>().join("; ");
      let two = if kind.is_empty() { "2".to_string() } else { format!("2<{}>", kind) };
      let body = match r2.below(4) {
        0 => format!("y := x'\nz := y * {}", two),
        1 => format!("y := x'\nw := y'\nz := w + x"),
        2 => format!("y := x' + x'\nz := y'"),
        _ => format!("y := x * {}\nz := y'", two) };
      srcs.push(format!("x := [{}]\n{}", lit, body));
    } }
    for s in srcs { sink.hit("resolve:transposes"); let k = 1 + r2.below(3); cases.push(format!("resolve\t{}\ttransposes\t{}", k, hexs(&s))); }
  }
  cases
}
