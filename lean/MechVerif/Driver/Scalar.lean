/- Scalar values on the wire, and the hardware instance of the float parameter. -/
import MechVerif.Driver.Value
import MechVerif.Model.Scalar
import MechVerif.Model.Mat
namespace MechVerif.Driver
open MechVerif.Num MechVerif.Scalar MechVerif.Mat

def dyToFloat (x : Dy) : Float := Float.scaleB (Float.ofInt x.m) x.e

/-- exact fmod on finite operands (always representable), IEEE special cases as C's fmod -/
def fmod64 (xb yb : UInt64) : UInt64 :=
  let x := Float.ofBits xb; let y := Float.ofBits yb
  if x.isNaN || y.isNaN || x.isInf || y == 0.0 then (Float.ofBits 0x7ff8000000000000).toBits
  else if y.isInf then xb
  else match dyOfF64Bits xb, dyOfF64Bits yb with
    | some dx, some dy =>
      let (a, b, e) := Dy.align dx dy
      let r := Int.tmod a b
      if r == 0 then (if x < 0.0 || xb == 0x8000000000000000 then (0x8000000000000000 : UInt64) else 0)
      else (dyToFloat ⟨r, e⟩).toBits
    | _, _ => (Float.ofBits 0x7ff8000000000000).toBits

/-- powf restricted to what the correspondence generates: integer base and small
    non-negative integer exponent (exact); anything else falls back to exp/log and is
    not expected to be bit-exact -/
def pow64 (xb yb : UInt64) : UInt64 :=
  let x := Float.ofBits xb; let y := Float.ofBits yb
  if y >= 0.0 && y == y.floor && y <= 64.0 && x == x.floor && x.abs <= 1024.0 then
    let n := y.toUInt64.toNat
    (Float.ofInt ((x.toInt64.toInt) ^ n)).toBits
  else (Float.pow x y).toBits

def hwFloat : FloatImpl where
  add64 := fun a b => (Float.ofBits a + Float.ofBits b).toBits
  sub64 := fun a b => (Float.ofBits a - Float.ofBits b).toBits
  mul64 := fun a b => (Float.ofBits a * Float.ofBits b).toBits
  div64 := fun a b => (Float.ofBits a / Float.ofBits b).toBits
  rem64 := fmod64
  pow64 := pow64
  neg64 := fun a => (-(Float.ofBits a)).toBits
  lt64 := fun a b => Float.ofBits a < Float.ofBits b
  le64 := fun a b => Float.ofBits a <= Float.ofBits b
  eq64 := fun a b => Float.ofBits a == Float.ofBits b
  add32 := fun a b => (Float32.ofBits a + Float32.ofBits b).toBits
  sub32 := fun a b => (Float32.ofBits a - Float32.ofBits b).toBits
  mul32 := fun a b => (Float32.ofBits a * Float32.ofBits b).toBits
  div32 := fun a b => (Float32.ofBits a / Float32.ofBits b).toBits
  rem32 := fun a b => ((Float.ofBits (fmod64 (Float32.ofBits a).toFloat.toBits (Float32.ofBits b).toFloat.toBits)).toFloat32).toBits
  pow32 := fun a b => ((Float.ofBits (pow64 (Float32.ofBits a).toFloat.toBits (Float32.ofBits b).toFloat.toBits)).toFloat32).toBits
  neg32 := fun a => (-(Float32.ofBits a)).toBits
  lt32 := fun a b => Float32.ofBits a < Float32.ofBits b
  le32 := fun a b => Float32.ofBits a <= Float32.ofBits b
  eq32 := fun a b => Float32.ofBits a == Float32.ofBits b

def kindOfName (s : String) : Option Kind :=
  match IKind.ofName s with
  | some k => some (.int k)
  | none =>
    match s with
    | "f32" => some .f32 | "f64" => some .f64 | "r64" => some .r64 | "c64" => some .c64
    | "bool" => some .bool | "string" => some .string | _ => none

def kindName : Kind → String
  | .int k => k.name | .f32 => "f32" | .f64 => "f64" | .r64 => "r64" | .c64 => "c64" | .bool => "bool" | .string => "string"

def canonNaN64 (b : UInt64) : UInt64 := if (Float.ofBits b).isNaN then 0x7ff8000000000000 else b
def canonNaN32 (b : UInt32) : UInt32 := if (Float32.ofBits b).isNaN then 0x7fc00000 else b

def parseElem (k : Kind) (t : String) : Option Val :=
  match k with
  | .int _ => (parseInt t).map .int
  | .f64 => some (.f64 (UInt64.ofNat (parseHex t)))
  | .f32 => some (.f32 (UInt32.ofNat (parseHex t)))
  | .r64 => match t.splitOn "/" with
    | [n, d] => (match parseInt n, parseInt d with | some n, some d => some (.rat n d) | _, _ => none)
    | _ => none
  | .c64 => match t.splitOn "," with
    | [a, b] => some (.cplx (UInt64.ofNat (parseHex a)) (UInt64.ofNat (parseHex b)))
    | _ => none
  | .bool => if t == "true" then some (.bool true) else if t == "false" then some (.bool false) else none
  | .string => (unhexText t).map (fun cs => .str (String.ofList cs))

def elemText : Val → String
  | .int v => toString v
  | .f64 b => hexFixed (canonNaN64 b).toNat 16
  | .f32 b => hexFixed (canonNaN32 b).toNat 8
  | .rat n d => s!"{n}/{d}"
  | .cplx a b => hexFixed (canonNaN64 a).toNat 16 ++ "," ++ hexFixed (canonNaN64 b).toNat 16
  | .bool b => if b then "true" else "false"
  | .str s => hexOfText s.toList

def kindOfVal (fallback : Kind) : Val → Kind
  | .int _ => fallback | .f64 _ => .f64 | .f32 _ => .f32 | .rat _ _ => .r64 | .cplx _ _ => .c64
  | .bool _ => .bool | .str _ => .string

/-- `S|e` or `M|r|c|e1 e2 …` -/
def parseOperand (k : Kind) (t : String) : Option (Operand Val) :=
  match t.splitOn "|" with
  | ["S", e] => (parseElem k e).map .scalar
  | ["M", r, c, body] =>
    match r.toNat?, c.toNat? with
    | some r, some c =>
      let els := if body.isEmpty then [] else body.splitOn " "
      (els.mapM (parseElem k)).map (fun d => .mat ⟨r, c, d⟩)
    | _, _ => none
  | _ => none

def operandText (k : Kind) : Operand Val → String
  | .scalar v => kindName (kindOfVal k v) ++ ":" ++ elemText v
  | .mat m =>
    let ek := match m.data.head? with | some v => kindOfVal k v | none => k
    matText (kindName ek) m.rows m.cols (m.data.map elemText)

def opOfName : String → Option BinOp
  | "add" => some .add | "sub" => some .sub | "mul" => some .mul | "div" => some .div | "mod" => some .mod
  | "pow" => some .pow | "eq" => some .eq | "ne" => some .ne | "lt" => some .lt | "le" => some .le
  | "gt" => some .gt | "ge" => some .ge | "and" => some .and | "or" => some .or | "xor" => some .xor
  | _ => none

def renderResult (k : Kind) (r : Except Err (Operand Val)) : String :=
  match r with
  | .error _ => "err"
  | .ok o => operandText k o

end MechVerif.Driver
