//! C07: bytecode files — CRC model vs crc32fast, damaged files, round trips, instruction codec.
use crate::common::*;
use crate::interp::*;
use mech_core::*;
use mech_interpreter::*;

pub fn unhex(s: &str) -> Vec<u8> {
  if s == "-" { return vec![]; }
  (0..s.len() / 2).map(|i| u8::from_str_radix(&s[2 * i..2 * i + 2], 16).unwrap()).collect()
}

const PROGRAMS: &[&str] = &[
  "x := 1 + 2",
  "x := [1 2 3]; y := x + 1",
  "a := 1.5; b := 2.5; c := a * b - a / b",
  "x := [1 2; 3 4]; y := x'",
  "~x := [1 2 3]; x[2] = 10; x",
  "s := \"hello\"",
  "t := true && false || true",
  "x := 1:10; y := x[3..=5]",
  "x := [1 2 3 4] > [0 5 2 9]",
  "x := 1/3; y := x + 2/3",
  "a := {1,2,3}",
  "x := 2 ^ 10",
  "~z := [1.0 2.0; 3.0 4.0]; z[1,2] = 7.5; w := z + z",
  "x := -5; y := x * x",
];

pub fn emit(src: &str) -> Option<Vec<u8>> {
  let tree = parse_code(src).ok()?;
  let mut intrp = Interpreter::new(0);
  let r = std::panic::catch_unwind(std::panic::AssertUnwindSafe(|| { let _ = intrp.interpret(&tree); intrp.compile() }));
  match r { Ok(Ok(b)) => Some(b), _ => None }
}

fn load_obs(bytes: &[u8]) -> String {
  let b = bytes.to_vec();
  let mem: String = match std::panic::catch_unwind(move || ParsedProgram::from_bytes(&b)) {
    Err(_) => "hostpanic".into(),
    Ok(Ok(_)) => "accepted".into(),
    Ok(Err(e)) => {
      let k = e.kind_name().to_string();
      if k.contains("CrcMismatch") { "rejected:crc".into() }
      else if k.contains("FileTooShort") { "rejected:short".into() }
      else { format!("rejected:other:{}", k) }
    }
  };
  // the same bytes as a file on disk, through the two loaders that take a path: they must decide as the in-memory
  // loader does (a damaged file accepted from disk is reported instead of the in-memory verdict)
  let path = std::env::temp_dir().join(format!("mvh-c07-{}-{:?}.mecb", std::process::id(), std::thread::current().id()).replace(['(', ')'], ""));
  if std::fs::write(&path, bytes).is_ok() {
    let p1 = path.clone();
    let f1 = match std::panic::catch_unwind(move || load_program_from_file(&p1)) { Err(_) => "hostpanic", Ok(Ok(_)) => "accepted", Ok(Err(_)) => "rejected" };
    let p2 = path.clone();
    let f2 = match std::panic::catch_unwind(move || mech::read_mech_source_file(&p2)) { Err(_) => "hostpanic", Ok(Ok(_)) => "accepted", Ok(Err(_)) => "rejected" };
    let _ = std::fs::remove_file(&path);
    let m = if mem.starts_with("rejected") { "rejected" } else { mem.as_str() };
    if f1 != m { return format!("from-file:{}(in-memory:{})", f1, mem); }
    if f2 != m { return format!("from-source-file:{}(in-memory:{})", f2, mem); }
  }
  mem
}

fn pslug(p: &Box<dyn std::any::Any + Send>) -> String {
  let m = if let Some(s) = p.downcast_ref::<String>() { s.clone() } else if let Some(s) = p.downcast_ref::<&str>() { s.to_string() } else { "?".to_string() };
  m.chars().take(40).map(|c| if c.is_ascii_alphanumeric() { c } else { '_' }).collect()
}

/// everything the loader produced for a byte string, or the error kind (run in a child process)
pub fn load_summary(bytes: &[u8]) -> String { load_summary2(bytes, false) }
pub fn load_summary2(bytes: &[u8], two_phase: bool) -> String {
  let b = bytes.to_vec();
  let r = std::panic::catch_unwind(move || ParsedProgram::from_bytes(&b));
  match r {
    Err(p) => format!("panic:{}", pslug(&p)),
    Ok(Err(e)) => format!("err:{}", e.kind_name()),
    Ok(Ok(p)) => {
      let h = &p.header;
      let hf = format!("{},{},{},{},{},{},{},{},{},{},{},{},{},{},{},{},{},{},{},{},{},{}", hexb(&h.magic), h.version, h.mech_ver, h.flags, h.reg_count, h.instr_count, h.feature_count, h.feature_off,
        h.types_count, h.types_off, h.const_count, h.const_tbl_off, h.const_tbl_len, h.const_blob_off, h.const_blob_len, h.symbols_len, h.symbols_off, h.instr_off, h.instr_len, h.dict_off, h.dict_len, h.reserved);
      let feats = p.features.iter().map(|x| x.to_string()).collect::<Vec<_>>().join(",");
      let types = p.types.entries.iter().map(|t| format!("{}:{}", t.tag.clone() as u16, hexb(&t.bytes))).collect::<Vec<_>>().join(";");
      let consts = p.const_entries.iter().map(|c| format!("{}:{}:{}:{}:{}:{}:{}", c.type_id, c.enc, c.align, c.flags, c.reserved, c.offset, c.length)).collect::<Vec<_>>().join(";");
      let mut syms: Vec<String> = p.symbols.iter().map(|(id, r)| format!("{}:{}:{}", id, if p.mutable_symbols.contains(id) { 1 } else { 0 }, r)).collect(); syms.sort();
      let mut dict: Vec<String> = p.dictionary.iter().map(|(id, n)| format!("{}:{}", id, hexs(n))).collect(); dict.sort();
      // the loader's part is written out before the constant decoder runs, so that an abort or a hang of
      // the decoder (seen by the parent process) can be told from one of the loader
      let head = format!("ok|H={}|F={}|T={}|C={}|B={}|S={}|I={}|D={}|V=", hf, feats, types, consts, hexb(&p.const_blob), syms.join(";"), instr_text(&p.instrs), dict.join(";"));
      if two_phase { use std::io::Write; print!("{}", head); let _ = std::io::stdout().flush(); }
      let vals = match std::panic::catch_unwind(std::panic::AssertUnwindSafe(|| p.decode_const_entries())) {
        Ok(Ok(vs)) => format!("n{}", vs.len()), Ok(Err(e)) => format!("err:{}", e.kind_name()), Err(pp) => format!("panic:{}", pslug(&pp)) };
      if two_phase { vals } else { format!("{}{}", head, vals) }
    }
  }
}

/// run the loader on `bytes` in a child process with an address-space limit and a time budget
pub fn load_child(bytes: &[u8]) -> String {
  use std::io::Write;
  use std::process::{Command, Stdio};
  let exe = std::env::current_exe().unwrap();
  let mut child = match Command::new("sh").arg("-c").arg("ulimit -v 3000000; exec \"$0\" loadone").arg(&exe)
    .stdin(Stdio::piped()).stdout(Stdio::piped()).stderr(Stdio::null()).spawn() { Ok(c) => c, Err(_) => return "harness:spawn".into() };
  { let mut si = child.stdin.take().unwrap(); let _ = si.write_all(hexb(bytes).as_bytes()); let _ = si.write_all(b"\n"); }
  let t0 = std::time::Instant::now();
  loop {
    match child.try_wait() {
      Ok(Some(st)) => {
        let mut out = String::new();
        if let Some(mut so) = child.stdout.take() { use std::io::Read; let _ = so.read_to_string(&mut out); }
        let out = out.trim().to_string();
        return if st.success() { out } else if out.ends_with("|V=") { format!("{}abort", out) } else { "abort".to_string() };
      }
      Ok(None) => { if t0.elapsed().as_secs() > 20 {
          let _ = child.kill(); let _ = child.wait();
          let mut out = String::new();
          if let Some(mut so) = child.stdout.take() { use std::io::Read; let _ = so.read_to_string(&mut out); }
          let out = out.trim().to_string();
          return if out.ends_with("|V=") { format!("{}hang", out) } else { "hang".into() };
        } std::thread::sleep(std::time::Duration::from_millis(2)); }
      Err(_) => return "harness:wait".into(),
    }
  }
}

pub fn mutate(file: &[u8], spec: &str) -> Vec<u8> {
  let p: Vec<&str> = spec.split(':').collect();
  let mut f = file.to_vec();
  match p[0] {
    "none" => {}
    "trunc" => { let n: usize = p[1].parse().unwrap(); f.truncate(n); }
    "flip" => { let b: usize = p[1].parse().unwrap(); f[b / 8] ^= 1 << (b % 8); }
    "burst" => {
      // start bit (transmission order, LSB first), xor mask of up to 32 bits (bit i of mask -> position start+i)
      let start: usize = p[1].parse().unwrap();
      let mask = u64::from_str_radix(p[2], 16).unwrap();
      for i in 0..32 { if mask >> i & 1 == 1 { let b = start + i; if b / 8 < f.len() { f[b / 8] ^= 1 << (b % 8); } } }
    }
    _ => panic!("bad mutation"),
  }
  f
}

fn instr_text(ins: &[DecodedInstr]) -> String {
  ins.iter().map(|i| match i {
    DecodedInstr::ConstLoad { dst, const_id } => format!("C:{}:{}", dst, const_id),
    DecodedInstr::NullOp { fxn_id, dst } => format!("N:{}:{}", fxn_id, dst),
    DecodedInstr::UnOp { fxn_id, dst, src } => format!("U:{}:{}:{}", fxn_id, dst, src),
    DecodedInstr::BinOp { fxn_id, dst, lhs, rhs } => format!("B:{}:{}:{}:{}", fxn_id, dst, lhs, rhs),
    DecodedInstr::TernOp { fxn_id, dst, a, b, c } => format!("T:{}:{}:{}:{}:{}", fxn_id, dst, a, b, c),
    DecodedInstr::QuadOp { fxn_id, dst, a, b, c, d } => format!("Q:{}:{}:{}:{}:{}:{}", fxn_id, dst, a, b, c, d),
    DecodedInstr::VarArg { fxn_id, dst, args } => format!("V:{}:{}:{}", fxn_id, dst, args.iter().map(|a| a.to_string()).collect::<Vec<_>>().join(",")),
    DecodedInstr::Ret { src } => format!("R:{}", src),
    DecodedInstr::Unknown { opcode, .. } => format!("X:{}", opcode),
  }).collect::<Vec<_>>().join(";")
}

fn parse_instrs(t: &str) -> Vec<DecodedInstr> {
  if t == "-" { return vec![]; }
  t.split(';').map(|s| {
    let p: Vec<&str> = s.split(':').collect();
    let n = |i: usize| -> u64 { p[i].parse().unwrap() };
    match p[0] {
      "C" => DecodedInstr::ConstLoad { dst: n(1) as u32, const_id: n(2) as u32 },
      "N" => DecodedInstr::NullOp { fxn_id: n(1), dst: n(2) as u32 },
      "U" => DecodedInstr::UnOp { fxn_id: n(1), dst: n(2) as u32, src: n(3) as u32 },
      "B" => DecodedInstr::BinOp { fxn_id: n(1), dst: n(2) as u32, lhs: n(3) as u32, rhs: n(4) as u32 },
      "T" => DecodedInstr::TernOp { fxn_id: n(1), dst: n(2) as u32, a: n(3) as u32, b: n(4) as u32, c: n(5) as u32 },
      "Q" => DecodedInstr::QuadOp { fxn_id: n(1), dst: n(2) as u32, a: n(3) as u32, b: n(4) as u32, c: n(5) as u32, d: n(6) as u32 },
      "V" => DecodedInstr::VarArg { fxn_id: n(1), dst: n(2) as u32, args: if p[3].is_empty() { vec![] } else { p[3].split(',').map(|a| a.parse().unwrap()).collect() } },
      "R" => DecodedInstr::Ret { src: n(1) as u32 },
      _ => panic!("bad instr"),
    }
  }).collect()
}

pub fn exec(case: &str) -> String {
  let f: Vec<&str> = case.split('\t').collect();
  match f[0] {
    "cdec" => crate::c06::const_dump(&String::from_utf8(unhex(f[1])).unwrap_or_default()),
    "crc" => format!("{:08x}", crc32fast::hash(&unhex(f[1]))),
    "dmg" => load_obs(&mutate(&unhex(f[1]), f[2])),
    "sweep" => {
      let file = unhex(f[1]);
      match f[2] {
        "flips" => {
          let n = file.len() * 8;
          let mut rej = 0;
          for b in 0..n { let mut g = file.clone(); g[b / 8] ^= 1 << (b % 8); if load_obs(&g).starts_with("rejected") { rej += 1; } }
          format!("rejected={}/{}", rej, n)
        }
        "truncs" => {
          let n = file.len();
          let mut rej = 0;
          for k in 0..n { if load_obs(&file[..k]).starts_with("rejected") { rej += 1; } }
          format!("rejected={}/{}", rej, n)
        }
        _ => "bad".into(),
      }
    }
    "rt" => {
      let file = unhex(f[1]);
      let b = file.clone();
      match std::panic::catch_unwind(move || ParsedProgram::from_bytes(&b).and_then(|p| p.to_bytes())) {
        Err(_) => "hostpanic".into(),
        Ok(Err(e)) => format!("err:{}", e.kind_name()),
        Ok(Ok(out)) => if out == file { "same".into() } else { "diff".into() },
      }
    }
    "load" => load_child(&unhex(f[2])),
    "instrs" => {
      // build a loadable file around the given instruction list, reload it, report the decoded list
      let base = emit("x := 1 + 2").unwrap();
      let mut pp = ParsedProgram::from_bytes(&base).unwrap();
      let ins = parse_instrs(f[1]);
      let mut enc: Vec<u8> = vec![];
      for i in &ins { i.write_to(&mut enc).unwrap(); }
      pp.instrs = ins;
      pp.header.instr_len = enc.len() as u64;
      pp.header.instr_count = pp.instrs.len() as u32;
      pp.header.dict_off = pp.header.instr_off + pp.header.instr_len;
      let bytes = match pp.to_bytes() { Ok(b) => b, Err(e) => return format!("err:encode:{}", e.kind_name()) };
      match std::panic::catch_unwind(move || ParsedProgram::from_bytes(&bytes)) {
        Err(_) => "hostpanic".into(),
        Ok(Err(e)) => { let k = e.kind_name().to_string(); if k.contains("TruncatedInstruction") { "err:truncated".into() } else { format!("err:{}", k) } }
        Ok(Ok(p2)) => { let t = instr_text(&p2.instrs); format!("ok:{}", if t.is_empty() { "-".to_string() } else { t }) }
      }
    }
    _ => "bad-proto".into(),
  }
}

fn gen_instrs(rng: &mut Rng, sink: &mut Sink) -> String {
  let n = rng.below(6) as usize;
  if n == 0 { return "-".into(); }
  let r32 = |rng: &mut Rng| -> u64 { match rng.below(5) { 0 => 0, 1 => u32::MAX as u64, 2 => rng.below(256), _ => rng.next() & 0xFFFF_FFFF } };
  let r64 = |rng: &mut Rng| -> u64 { match rng.below(5) { 0 => 0, 1 => u64::MAX, _ => rng.next() } };
  let mut v = vec![];
  for k in 0..n {
    let kind = rng.below(8);
    let s = match kind {
      0 => format!("C:{}:{}", r32(rng), r32(rng)),
      1 => format!("N:{}:{}", r64(rng), r32(rng)),
      2 => format!("U:{}:{}:{}", r64(rng), r32(rng), r32(rng)),
      3 => format!("B:{}:{}:{}:{}", r64(rng), r32(rng), r32(rng), r32(rng)),
      4 => format!("T:{}:{}:{}:{}:{}", r64(rng), r32(rng), r32(rng), r32(rng), r32(rng)),
      5 => format!("Q:{}:{}:{}:{}:{}:{}", r64(rng), r32(rng), r32(rng), r32(rng), r32(rng), r32(rng)),
      6 => { let m = rng.below(5); format!("V:{}:{}:{}", r64(rng), r32(rng), (0..m).map(|_| r32(rng).to_string()).collect::<Vec<_>>().join(",")) }
      _ => format!("R:{}", r32(rng)),
    };
    if k == n - 1 && kind == 7 { sink.hit("instrs:trailing-ret"); }
    sink.hit(&format!("instr-kind:{}", &s[..1]));
    v.push(s);
  }
  v.join(";")
}

pub fn generate(seed: u64, thorough: bool, sink: &mut Sink) -> Vec<String> {
  let mut rng = Rng::new(seed);
  let mut cases = vec![];
  // 1. CRC model vs crc32fast
  let ncrc = if thorough { 3000 } else { 300 };
  for k in 0..ncrc {
    let len = if k < 20 { k } else { rng.below(200) as usize };
    let bytes: Vec<u8> = (0..len).map(|_| match rng.below(4) { 0 => 0, 1 => 0xFF, _ => rng.next() as u8 }).collect();
    cases.push(format!("crc\t{}", hexb(&bytes)));
    sink.hit("crc");
  }
  cases.push(format!("crc\t{}", hexs("123456789")));
  // 2. emitted files
  let mut files: Vec<Vec<u8>> = vec![];
  for p in PROGRAMS { if let Some(b) = emit(p) { files.push(b); sink.hit("emitted-file"); } else { sink.hit("emit-failed"); } }
  for (i, file) in files.iter().enumerate() {
    let h = hexb(file);
    let nbits = file.len() * 8;
    cases.push(format!("dmg\t{}\tnone", h));
    cases.push(format!("rt\t{}", h));
    let sweeps = if thorough { files.len() } else { 3 };
    if i < sweeps { cases.push(format!("sweep\t{}\tflips", h)); sink.hit("sweep:flips"); }
    if i < sweeps { cases.push(format!("sweep\t{}\ttruncs", h)); sink.hit("sweep:truncs"); }
    let per = if thorough { 200 } else { 24 };
    for _ in 0..per {
      match rng.below(4) {
        0 => { cases.push(format!("dmg\t{}\tflip:{}", h, rng.below(nbits as u64))); sink.hit("dmg:flip"); }
        1 => { cases.push(format!("dmg\t{}\ttrunc:{}", h, rng.below(file.len() as u64))); sink.hit("dmg:trunc"); }
        _ => {
          let len = 1 + rng.below(32);
          let mut mask = rng.next() & ((1u64 << len) - 1) & 0xFFFF_FFFF;
          mask |= 1; // window starts with a flipped bit
          let start = rng.below((nbits as u64).saturating_sub(32).max(1));
          cases.push(format!("dmg\t{}\tburst:{}:{:x}", h, start, mask));
          sink.hit(&format!("dmg:burst-len{}", if len <= 8 { "1-8" } else if len <= 16 { "9-16" } else { "17-32" }));
        }
      }
    }
    // bursts touching the trailer
    for k in 0..4 { cases.push(format!("dmg\t{}\tburst:{}:{:x}", h, nbits - 32 - 8 * k, 0x80000001u64 | rng.next() & 0xFFFF_FFFF)); sink.hit("dmg:burst-trailer"); }
  }
  // 3. random byte strings
  for _ in 0..(if thorough { 5000 } else { 300 }) {
    let len = rng.below(120) as usize;
    let bytes: Vec<u8> = (0..len).map(|_| rng.next() as u8).collect();
    cases.push(format!("dmg\t{}\tnone", hexb(&bytes)));
    sink.hit("random-bytes");
  }
  // 4. instruction codec
  for _ in 0..(if thorough { 5000 } else { 400 }) { let t = gen_instrs(&mut rng, sink); cases.push(format!("instrs\t{}", t)); }
  // 4. the loader on whole files, in a child process: emitted, damaged, and hostile files whose
  //    checksum has been recomputed
  let with_crc = |mut body: Vec<u8>| -> Vec<u8> { let c = crc32fast::hash(&body); body.extend_from_slice(&c.to_le_bytes()); body };
  // header fields: (offset, size)
  let fields: [(usize, usize); 21] = [(4,1),(5,2),(7,2),(9,4),(13,4),(17,4),(21,8),(29,4),(33,8),(41,4),(45,8),(53,8),(61,8),(69,8),(77,8),(85,8),(93,8),(101,8),(109,8),(117,8),(125,4)];
  let mut emitted: Vec<Vec<u8>> = PROGRAMS.iter().filter_map(|p| emit(p)).collect();
  // files with symbols and a dictionary, built with the library's own writer
  for nsym in [1usize, 11, 12, 13, 30] {
    if let Some(base) = emit("x := 1 + 2") { if let Ok(mut pp) = ParsedProgram::from_bytes(&base) {
      for i in 0..nsym { pp.symbols.insert(1000 + i as u64, (i % 3) as u32); if i % 2 == 0 { pp.mutable_symbols.insert(1000 + i as u64); } }
      pp.dictionary.insert(7, "seven".to_string()); pp.dictionary.insert(8, "häßlich 😀".to_string());
      let sym_len = 13 * nsym as u64;
      pp.header.symbols_len = sym_len;
      pp.header.instr_off = pp.header.symbols_off + sym_len;
      let dict_len: u64 = pp.dictionary.iter().map(|(_, n)| 12 + n.len() as u64).sum();
      pp.header.dict_off = pp.header.instr_off + pp.header.instr_len; pp.header.dict_len = dict_len;
      if let Ok(b) = pp.to_bytes() { emitted.push(b); }
    } }
  }
  // every header field of a few emitted files set to each of seven hostile values in turn (checksum recomputed): zero,
  // one, the field's maximum, the file length, the length without the trailer, one more and one less than it was
  for file in emitted.iter().filter(|f| f.len() > 200).take(if thorough { 12 } else { 3 }) {
    let body = &file[..file.len() - 4];
    for (o, sz) in fields.iter() {
      let max = if *sz == 8 { u64::MAX } else { (1u64 << (8 * sz)) - 1 };
      let old = { let mut v = 0u64; for i in 0..*sz { v |= (body[o + i] as u64) << (8 * i); } v };
      for v in [0u64, 1, max, file.len() as u64, file.len() as u64 - 4, old.wrapping_add(1), old.wrapping_sub(1)] {
        let v = v & max; if v == old { continue; }
        let mut b = body.to_vec(); for i in 0..*sz { b[o + i] = (v >> (8 * i)) as u8; }
        cases.push(format!("load\thostile-header\t{}", hexb(&with_crc(b)))); sink.hit("load:hostile-header-systematic");
      }
    }
  }
  for (fi, file) in emitted.iter().enumerate() {
    cases.push(format!("load\temitted\t{}", hexb(file))); sink.hit("load:emitted");
    let body = &file[..file.len() - 4];
    let k = if thorough { 60 } else { 8 };
    for _ in 0..k {
      match rng.below(9) {
        0 => { let mut g = file.clone(); let b = rng.below((g.len() * 8) as u64) as usize; g[b / 8] ^= 1 << (b % 8); cases.push(format!("load\tflip\t{}", hexb(&g))); sink.hit("load:flip"); }
        1 => { let n = rng.below(file.len() as u64) as usize; cases.push(format!("load\ttruncated\t{}", hexb(&file[..n]))); sink.hit("load:truncated"); }
        2 | 3 | 4 => { // one header field set to a hostile value, checksum recomputed
          let (o, sz) = fields[rng.below(21) as usize];
          let max = if sz == 8 { u64::MAX } else { (1u64 << (8 * sz)) - 1 };
          let old = { let mut v = 0u64; for i in 0..sz { v |= (body[o + i] as u64) << (8 * i); } v };
          let v = match rng.below(8) { 0 => 0, 1 => 1, 2 => max, 3 => file.len() as u64, 4 => file.len() as u64 - 4, 5 => old.wrapping_add(1), 6 => old.wrapping_sub(1), _ => rng.next() & max };
          let mut b = body.to_vec(); for i in 0..sz { b[o + i] = (v >> (8 * i)) as u8; }
          cases.push(format!("load\thostile-header\t{}", hexb(&with_crc(b)))); sink.hit("load:hostile-header"); }
        5 | 6 => { // a byte inside the sections changed, checksum recomputed
          let mut b = body.to_vec(); if b.len() > 130 { let i = 129 + rng.below((b.len() - 129) as u64) as usize; b[i] = match rng.below(3) { 0 => 0xff, 1 => 0, _ => rng.next() as u8 }; }
          cases.push(format!("load\thostile-section\t{}", hexb(&with_crc(b)))); sink.hit("load:hostile-section"); }
        7 => { let n = rng.below(body.len() as u64) as usize; cases.push(format!("load\thostile-truncated\t{}", hexb(&with_crc(body[..n].to_vec())))); sink.hit("load:hostile-truncated"); }
        _ => { let n = rng.below(400) as usize; let b: Vec<u8> = (0..n).map(|_| rng.next() as u8).collect();
               let b = if rng.chance(1, 2) && n >= 4 { let mut x = b; x[0] = b'M'; x[1] = b'E'; x[2] = b'C'; x[3] = b'H'; x } else { b };
               cases.push(format!("load\thostile-random\t{}", hexb(&with_crc(b)))); sink.hit("load:hostile-random"); }
      }
    }
    let _ = fi;
  }
  // round trip of the files compiled from the programs of the bytecode generator (C06): every kind of
  // constant, instruction form and dictionary the other generators reach
  {
    let mut scratch = Sink::new();
    let progs = crate::c06::generate(seed, thorough, &mut scratch);
    let want = if thorough { 1200 } else { 120 };
    let step = (progs.len() / want).max(1);
    for c in progs.iter().step_by(step).take(want) {
      let f: Vec<&str> = c.split('\t').collect();
      if f.len() < 3 { continue; }
      let src = match String::from_utf8(unhex(f[2])) { Ok(s) => s, Err(_) => continue };
      if let Some(b) = emit(&src) { if b.len() < 6000 { cases.push(format!("rt\t{}", hexb(&b))); sink.hit("rt:generated-program"); } } else { sink.hit("rt:generated-program-does-not-compile"); }
    }
  }
  // hostile counts: a verifying file whose variable-arity instruction declares far more arguments than the stream
  // holds (the count must not size an allocation)
  if let Some(base) = emit("x := [1 2 3 4 5]") {
    if let Ok(pp) = ParsedProgram::from_bytes(&base) {
      let off = pp.header.instr_off as usize; let len = pp.header.instr_len as usize;
      for count in [u32::MAX, 0x5000_0000u32, 0x0100_0000, 1000] {
        let mut body = base[..base.len() - 4].to_vec();
        // overwrite the start of the instruction stream with a VarArg instruction of that count
        if len >= 17 { body[off] = 0x60; for i in 0..12 { body[off + 1 + i] = i as u8; } body[off + 13..off + 17].copy_from_slice(&count.to_le_bytes()); }
        let c = crc32fast::hash(&body); body.extend_from_slice(&c.to_le_bytes());
        cases.push(format!("load\thostile-section\t{}", hexb(&body))); sink.hit("load:hostile-vararg-count");
      }
    }
  }
  cases.push("instrs\tR:0".into());
  cases.push("instrs\tC:1:2;R:7".into());
  cases.push("instrs\tR:7;C:1:2".into());
  // 6. the constants of compiled programs as the loader decodes them (scalars of every kind with parts that differ,
  // strings of every byte length, matrices, sets, tables): decoded value against the bytes written for it
  {
    let srcs = crate::c06::constant_sources(seed, thorough);
    let n = if thorough { srcs.len() } else { 500.min(srcs.len()) };
    let step = (srcs.len() / n.max(1)).max(1);
    for s in srcs.iter().step_by(step).take(n) { cases.push(format!("cdec\t{}", hexs(s))); sink.hit("constants-decoded"); }
    for s in ["x := 1+2i", "x := 3-4i", "x := 2/3", "x := [1+2i 3+5i]", "x := 7i8", "x<i8> := -7", "x<u128> := 9", "x<f32> := 2.5", "x := \"héllo\"", "x := [1/2 3/4]", "x := true"] {
      cases.push(format!("cdec\t{}", hexs(s))); sink.hit("constants-decoded");
    }
  }
  sink.sample(cases[25].clone());
  sink.sample(cases[cases.len() - 1].clone());
  cases
}
