/-
Indexed reads `x[…]`: selector normalisation of `subscript()`
(src/interpreter/src/expressions.rs) and the access kernels of
src/interpreter/src/stdlib/access/matrix.rs, over column-major data.
Indices are 1-based `usize` values as `Value::as_index` delivers them.
-/
import MechVerif.Model.Mat
namespace MechVerif.Index
open MechVerif.Num MechVerif.Mat

/-- a selector after evaluation: what stands in one index position -/
inductive Sel where
  | scalar (i : Nat)
  | vec (ix : List Nat)          -- index vector or range (≥ 1 elements), row or column shaped
  | all
  | mask (b : List Bool)
deriving DecidableEq, Repr

/-- `ix - 1` on usize: 0 underflows (a panic, reported as an error) -/
def pred1 (i : Nat) : Except Err Nat := if i = 0 then .error .overflow else .ok (i - 1)

/-- nalgebra linear indexing `m[k]` -/
def getLin {α : Type} (m : Mat α) (k : Nat) : Except Err α :=
  if k < m.rows * m.cols then getE m.data k else .error .index

/-- nalgebra 2-D indexing `m[(r, c)]` (both bounds are checked) -/
def getRC {α : Type} (m : Mat α) (r c : Nat) : Except Err α :=
  if r < m.rows ∧ c < m.cols then getE m.data (c * m.rows + r) else .error .index

/-- 1-based positions of the `true` entries -/
def maskIxAux : List Bool → Nat → List Nat
  | [], _ => []
  | b :: bs, k => if b then (k + 1) :: maskIxAux bs (k + 1) else maskIxAux bs (k + 1)

def maskIx (b : List Bool) : List Nat := maskIxAux b 0

/-- the 1-based indices a selector addresses in a dimension of extent `n`
    (masks must have exactly `n` entries) -/
def selIxs (s : Sel) (n : Nat) : Except Err (List Nat) :=
  match s with
  | .scalar i => .ok [i]
  | .vec ix => .ok ix
  | .all => .ok ((List.range n).map (· + 1))
  | .mask b => if b.length = n then .ok (maskIx b) else .error .dim

/-- gather by linear index (Access1D kernels): out[k] = x[ix[k] - 1] -/
def gather1 {α : Type} (m : Mat α) (ix : List Nat) : Except Err (List α) :=
  tabulateM (fun k => bindE (getE ix k) (fun i => bindE (pred1 i) (getLin m))) 0 ix.length

/-- gather a sub-matrix (Access2D kernels): column by column of the output,
    out[(a, b)] = x[(R[a] - 1, C[b] - 1)] -/
def gather2 {α : Type} (m : Mat α) (R C : List Nat) : Except Err (List α) :=
  tabulateM (fun k =>
    bindE (getE R (k % R.length)) (fun r => bindE (getE C (k / R.length)) (fun c =>
      bindE (pred1 r) (fun r0 => bindE (pred1 c) (fun c0 => getRC m r0 c0))))) 0 (R.length * C.length)

/-- one-element index vectors, ranges and masks arrive as 1×1 matrices, for which no
    access arm exists -/
def Sel.single : Sel → Bool
  | .vec ix => ix.length == 1
  | .mask b => b.length == 1
  | _ => false

def Sel.isScalar : Sel → Bool
  | .scalar _ => true
  | _ => false

def Sel.isAll : Sel → Bool
  | .all => true
  | _ => false

/-- which (storage form, selector, selector) combinations have an access arm at all
    (transcribed from the `impl_access_*_match_arms` lists; every cell is enumerated
    against the code on every run) -/
def supported (f : Form) (s1 : Sel) (s2 : Option Sel) : Bool :=
  if s1.single then false else
  match s2 with
  | none => if s1.isAll then f == .MD else true
  | some s2 =>
    if s2.single then false else
    match f with
    | .MD => !(s1.isAll && s2.isAll)
    | _ => (s1.isScalar && s2.isScalar) || (!s1.isScalar && !s2.isScalar && !s2.isAll)

/-- `x[s]` -/
def access1 {α : Type} (m : Mat α) (s : Sel) : Except Err (Operand α) :=
  match s with
  | .scalar i => bindE (pred1 i) (fun k => mapE (getLin m k) .scalar)
  | _ =>
    bindE (selIxs s (m.rows * m.cols)) (fun ix =>
      mapE (gather1 m ix) (fun d => .mat ⟨ix.length, 1, d⟩))

/-- `x[s1, s2]` -/
def access2 {α : Type} (m : Mat α) (s1 s2 : Sel) : Except Err (Operand α) :=
  match s1, s2 with
  | .scalar i, .scalar j =>
    bindE (pred1 i) (fun r => bindE (pred1 j) (fun c => mapE (getRC m r c) .scalar))
  | _, _ =>
    bindE (selIxs s1 m.rows) (fun R => bindE (selIxs s2 m.cols) (fun C =>
      mapE (gather2 m R C) (fun d => .mat ⟨R.length, C.length, d⟩)))

/-- `x[s]` / `x[s1, s2]` as the interpreter evaluates it: unsupported combinations are
    errors (finding C03-D4), the rest runs the kernels above -/
def access {α : Type} (m : Mat α) (s1 : Sel) (s2 : Option Sel) : Except Err (Operand α) :=
  if !supported m.form s1 s2 then .error .kind else
  match s2 with
  | none => access1 m s1
  | some s2 => access2 m s1 s2

end MechVerif.Index
