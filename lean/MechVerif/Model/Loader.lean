/-
The bytecode file loader: `load_program_from_bytes` / `load_program_from_reader`
(src/core/src/program/program.rs) after the CRC trailer check of Model/Crc.lean — the fixed
129-byte header, the feature, type, constant-table, constant-blob, symbol, instruction and
dictionary sections addressed by the header's offsets and lengths, and the instruction decoder
of Model/Bytecode.lean.  Every read is a read at an absolute position of the file (the
`Cursor` over all bytes, trailer included); a read past the end is the `UnexpectedEof` I/O error.
-/
import MechVerif.Model.Bytecode
namespace MechVerif.Loader
open MechVerif.Bytecode
open MechVerif.Crc (Byte)

inductive LErr where
  | short                 -- FileTooShort (fewer than 4 bytes, or a section outside the file)
  | crc                   -- CrcMismatch
  | io                    -- std::io UnexpectedEof
  | magic                 -- InvalidMagicNumber
  | unknownType (tag : Nat)
  | utf8                  -- InvalidUtf8InDict
  | instr (e : DErr)
deriving DecidableEq, Repr

structure Header where
  magic : List Byte
  version : Nat
  mechVer : Nat
  flags : Nat
  regCount : Nat
  instrCount : Nat
  featureCount : Nat
  featureOff : Nat
  typesCount : Nat
  typesOff : Nat
  constCount : Nat
  constTblOff : Nat
  constTblLen : Nat
  constBlobOff : Nat
  constBlobLen : Nat
  symbolsLen : Nat
  symbolsOff : Nat
  instrOff : Nat
  instrLen : Nat
  dictOff : Nat
  dictLen : Nat
  reserved : Nat
deriving DecidableEq, Repr

def HEADER_SIZE : Nat := 129

/-- little-endian number of `k` bytes at position `pos` -/
def rdAt (bs : List Byte) (pos k : Nat) : Option Nat :=
  if pos + k ≤ bs.length then some (unle ((bs.drop pos).take k)) else none

def sliceAt (bs : List Byte) (pos k : Nat) : Option (List Byte) :=
  if pos + k ≤ bs.length then some ((bs.drop pos).take k) else none

/-- `ByteCodeHeader::read_from`: the fields one after the other -/
def readHeaderSeq (bs : List Byte) : Option (Header × List Byte) :=
  if bs.length < 4 then none else do
  let magic := bs.take 4
  let (version, r) ← readLE 1 (bs.drop 4)
  let (mechVer, r) ← readLE 2 r
  let (flags, r) ← readLE 2 r
  let (regCount, r) ← readLE 4 r
  let (instrCount, r) ← readLE 4 r
  let (featureCount, r) ← readLE 4 r
  let (featureOff, r) ← readLE 8 r
  let (typesCount, r) ← readLE 4 r
  let (typesOff, r) ← readLE 8 r
  let (constCount, r) ← readLE 4 r
  let (constTblOff, r) ← readLE 8 r
  let (constTblLen, r) ← readLE 8 r
  let (constBlobOff, r) ← readLE 8 r
  let (constBlobLen, r) ← readLE 8 r
  let (symbolsLen, r) ← readLE 8 r
  let (symbolsOff, r) ← readLE 8 r
  let (instrOff, r) ← readLE 8 r
  let (instrLen, r) ← readLE 8 r
  let (dictOff, r) ← readLE 8 r
  let (dictLen, r) ← readLE 8 r
  let (reserved, r) ← readLE 4 r
  some ({ magic, version, mechVer, flags, regCount, instrCount, featureCount, featureOff, typesCount, typesOff, constCount,
          constTblOff, constTblLen, constBlobOff, constBlobLen, symbolsLen, symbolsOff, instrOff, instrLen, dictOff, dictLen, reserved }, r)

/-- the header of a file: its first 129 bytes -/
def readHeader (bs : List Byte) : Option Header :=
  if bs.length < HEADER_SIZE then none else (readHeaderSeq (bs.take HEADER_SIZE)).map (·.1)

def writeHeader (h : Header) : List Byte :=
  h.magic ++ leBytes 1 h.version ++ leBytes 2 h.mechVer ++ leBytes 2 h.flags ++ leBytes 4 h.regCount ++ leBytes 4 h.instrCount ++
  leBytes 4 h.featureCount ++ leBytes 8 h.featureOff ++ leBytes 4 h.typesCount ++ leBytes 8 h.typesOff ++ leBytes 4 h.constCount ++
  leBytes 8 h.constTblOff ++ leBytes 8 h.constTblLen ++ leBytes 8 h.constBlobOff ++ leBytes 8 h.constBlobLen ++
  leBytes 8 h.symbolsLen ++ leBytes 8 h.symbolsOff ++ leBytes 8 h.instrOff ++ leBytes 8 h.instrLen ++ leBytes 8 h.dictOff ++
  leBytes 8 h.dictLen ++ leBytes 4 h.reserved

def MECH : List Byte := [0x4d#8, 0x45#8, 0x43#8, 0x48#8]

/-- `section_in_file` -/
def sectionIn (off len total : Nat) : Bool := decide (off + len ≤ total ∧ off + len < 2 ^ 64)

/-- `n` u64 values starting at `pos` -/
def readU64s (bs : List Byte) : Nat → Nat → Except LErr (List Nat)
  | 0, _ => .ok []
  | n + 1, pos =>
    (match rdAt bs pos 8 with
     | none => .error .io
     | some v => match readU64s bs n (pos + 8) with | .ok vs => .ok (v :: vs) | .error e => .error e)

/-- type entries: tag u16, reserved u16, version u32, length u32, payload -/
def readTypes (bs : List Byte) : Nat → Nat → Except LErr (List (Nat × List Byte))
  | 0, _ => .ok []
  | n + 1, pos =>
    (match rdAt bs pos 2, rdAt bs (pos + 2) 2, rdAt bs (pos + 4) 4, rdAt bs (pos + 8) 4 with
     | some tag, some _, some _, some len =>
       if !(sectionIn 0 len bs.length) then .error .short else
       (match sliceAt bs (pos + 12) len with
        | none => .error .io
        | some payload =>
          if tag < 1 ∨ tag > 48 then .error (.unknownType tag) else
          match readTypes bs n (pos + 12 + len) with | .ok ts => .ok ((tag, payload) :: ts) | .error e => .error e)
     | _, _, _, _ => .error .io)

structure CEntry where
  typeId : Nat
  enc : Nat
  align : Nat
  flags : Nat
  reserved : Nat
  offset : Nat
  length : Nat
deriving DecidableEq, Repr

/-- `parse_const_entries` over the table's own bytes -/
def readConsts (tbl : List Byte) : Nat → Nat → Except LErr (List CEntry)
  | 0, _ => .ok []
  | n + 1, pos =>
    (match rdAt tbl pos 4, rdAt tbl (pos + 4) 1, rdAt tbl (pos + 5) 1, rdAt tbl (pos + 6) 1, rdAt tbl (pos + 7) 1, rdAt tbl (pos + 8) 8, rdAt tbl (pos + 16) 8 with
     | some t, some e, some a, some f, some r, some o, some l =>
       (match readConsts tbl n (pos + 24) with | .ok cs => .ok (⟨t, e, a, f, r, o, l⟩ :: cs) | .error e => .error e)
     | _, _, _, _, _, _, _ => .error .io)

/-- symbol entries: id u64, mutable u8, register u32 -/
def readSymbols (sy : List Byte) : Nat → Nat → Except LErr (List (Nat × Bool × Nat))
  | 0, _ => .ok []
  | n + 1, pos =>
    (match rdAt sy pos 8, rdAt sy (pos + 8) 1, rdAt sy (pos + 9) 4 with
     | some id, some m, some r =>
       (match readSymbols sy n (pos + 13) with | .ok ss => .ok ((id, decide (m ≠ 0), r) :: ss) | .error e => .error e)
     | _, _, _ => .error .io)

/-- dictionary entries until the section's bytes are used up: id u64, length u32, UTF-8 name -/
def readDict (d : List Byte) (valid : List Byte → Bool) : Nat → Nat → Except LErr (List (Nat × List Byte))
  | 0, _ => .ok []
  | fuel + 1, pos =>
    if pos ≥ d.length then .ok [] else
    (match rdAt d pos 8, rdAt d (pos + 8) 4 with
     | some id, some len =>
       if !(sectionIn 0 len d.length) then .error .short else
       (match sliceAt d (pos + 12) len with
        | none => .error .io
        | some name =>
          if !(valid name) then .error .utf8 else
          match readDict d valid fuel (pos + 12 + len) with | .ok es => .ok ((id, name) :: es) | .error e => .error e)
     | _, _ => .error .io)

structure Loaded where
  header : Header
  features : List Nat
  types : List (Nat × List Byte)
  consts : List CEntry
  blob : List Byte
  symbols : List (Nat × Bool × Nat)
  instrs : List Instr
  dict : List (Nat × List Byte)
deriving Repr

/-- a section given by (offset, length), read only when both are non-zero -/
def optSection (bs : List Byte) (off len : Nat) : Except LErr (List Byte) :=
  if off ≠ 0 ∧ len > 0 then
    (if !(sectionIn off len bs.length) then .error .short else
     match sliceAt bs off len with | some s => .ok s | none => .error .io)
  else .ok []

/-- `load_program_from_bytes`; `valid` is UTF-8 validity of a dictionary name -/
def load (valid : List Byte → Bool) (bs : List Byte) : Except LErr Loaded :=
  match Crc.verify bs with
  | .error .short => .error .short
  | .error .crc => .error .crc
  | .ok _ =>
    match readHeader bs with
    | none => .error .io
    | some h =>
      if h.magic ≠ MECH then .error .magic else
      let total := bs.length
      let inRange (off : Nat) : Bool := decide (off ≠ 0 ∧ off + 4 ≤ total - 4 ∧ off + 4 < 2 ^ 64)
      let feats : Except LErr (List Nat) :=
        if inRange h.featureOff then (match rdAt bs h.featureOff 4 with | some c => readU64s bs c (h.featureOff + 4) | none => .error .io) else .ok []
      match feats with
      | .error e => .error e
      | .ok features =>
        let tys : Except LErr (List (Nat × List Byte)) :=
          if inRange h.typesOff then (match rdAt bs h.typesOff 4 with | some c => readTypes bs c (h.typesOff + 4) | none => .error .io) else .ok []
        match tys with
        | .error e => .error e
        | .ok types =>
          match optSection bs h.constTblOff h.constTblLen with
          | .error e => .error e
          | .ok tbl =>
            match (if h.constTblOff ≠ 0 ∧ h.constTblLen > 0 then readConsts tbl h.constCount 0 else .ok []) with
            | .error e => .error e
            | .ok consts =>
              match optSection bs h.constBlobOff h.constBlobLen with
              | .error e => .error e
              | .ok blob =>
                match optSection bs h.symbolsOff h.symbolsLen with
                | .error e => .error e
                | .ok sy =>
                  match (if h.symbolsOff ≠ 0 ∧ h.symbolsLen > 0 then readSymbols sy (h.symbolsLen / 13) 0 else .ok []) with
                  | .error e => .error e
                  | .ok symbols =>
                    match optSection bs h.instrOff h.instrLen with
                    | .error e => .error e
                    | .ok ib =>
                      match optSection bs h.dictOff h.dictLen with
                      | .error e => .error e
                      | .ok db =>
                        match readDict db valid db.length 0 with
                        | .error e => .error e
                        | .ok dict =>
                          match decodeInstrs ib.length ib with
                          | .error e => .error (.instr e)
                          | .ok instrs => .ok ⟨h, features, types, consts, blob, symbols, instrs, dict⟩

end MechVerif.Loader
